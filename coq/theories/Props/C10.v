(* C10 - Reopening is transparent (abstract machine level: everything durable is unchanged and
   later commits / rollbacks behave as if the store had never been closed). *)
From Nomt Require Import Base Store Base_proofs Store_proofs.

Theorem C10_reopen_transparent : forall st,
  cur (reopen st) = cur st /\ hist (reopen st) = hist st /\ seqn (reopen st) = seqn st /\
  max_len (reopen st) = max_len st.
Proof. exact Store_proofs.reopen_transparent. Qed.
Print Assumptions C10_reopen_transparent.

Theorem C10_reopen_then_commit : forall st id b,
  cur (commit_batch (reopen st) id b) = cur (commit_batch st id b) /\
  hist (commit_batch (reopen st) id b) = hist (commit_batch st id b).
Proof. exact Store_proofs.reopen_then_commit. Qed.
Print Assumptions C10_reopen_then_commit.

Theorem C10_reopen_then_rollback : forall st n,
  cur (fst (rollback (reopen st) n)) = cur (fst (rollback st n)) /\
  snd (rollback (reopen st) n) = snd (rollback st n).
Proof. exact Store_proofs.reopen_then_rollback. Qed.
Print Assumptions C10_reopen_then_rollback.
