(* C19 - Storage is reclaimed and utilisation is reported truthfully: soundness of the page
   accounting check the Coq decoder runs on the real files. *)
From Nomt Require Import Base Image.

(* if the decoder's check passes, the pages of each value file (leaves, overflow pages, free-list
   items and free-list portion pages) are pairwise distinct and are EXACTLY the pages below the
   allocation frontier: nothing is orphaned, nothing is both free and in use or used twice *)
Theorem C19_page_accounting_sound : forall img, wf_pages_disjoint img = true ->
    (NoDup (ln_pages img) /\
     forall pn, In pn (ln_pages img) <-> (1 <= pn /\ pn < mf_ln_bump (i_manifest img)))%N
    /\ (NoDup (bbn_pages img) /\
        forall pn, In pn (bbn_pages img) <-> (1 <= pn /\ pn < mf_bbn_bump (i_manifest img)))%N.
Proof. exact Image.wf_pages_disjoint_sound. Qed.
Print Assumptions C19_page_accounting_sound.
