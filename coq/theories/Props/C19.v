(* C19 - Storage is reclaimed and utilisation is reported truthfully: soundness of the page
   accounting check the Coq decoder runs on the real files. *)
From Nomt Require Import Base Image.

(* if the decoder's check passes, the pages of each value file (leaves, overflow pages, free-list
   items and free-list portion pages) are pairwise distinct and are EXACTLY the pages below the
   allocation frontier: nothing is orphaned, nothing is both free and in use or used twice *)
Theorem C19_page_accounting_sound : forall img, wf_pages_disjoint img = true ->
    (NoDup (ln_pages img) /\
     forall pn, In pn (ln_pages img) <-> (1 <= pn /\ pn < mf_ln_bump (i_manifest img)))%N
    /\ (NoDup (bbn_pages img) /\
        forall pn, In pn (bbn_pages img) <-> (1 <= pn /\ pn < mf_bbn_bump (i_manifest img)))%N.
Proof. exact Image.wf_pages_disjoint_sound. Qed.
Print Assumptions C19_page_accounting_sound.

(* ------------------------------------------------------------------------------------------ *)
(* The allocator itself: mirror of beatree/allocator/{free_list.rs, mod.rs} (FreeList.v:          *)
(* FreeList::{read, pop, discard, commit, preallocate, push_and_encode}, get_nth_pop,            *)
(* SyncAllocator::allocate, SyncFinisher::finish; parametric in the number [cap] of page numbers *)
(* per free-list page, 1022 in the code).  The img engine checks on the real files that every    *)
(* transition between two consecutive images is the one the mirror computes (flsnap / flcheck).  *)
From Nomt Require FreeList FreeList_proofs.
From Coq Require Import List NArith Permutation.

(* Image.free_walk reads back exactly the list the encoder lays out (same portions, same items,
   same order), whatever follows the defined prefix of a portion page (the page buffers are not
   zeroed by the code) *)
Theorem C19_freelist_encode_decode : forall c rd d fuel,
    FreeList_proofs.disk_ok d -> FreeList_proofs.serves rd d -> (length d <= fuel)%nat ->
    free_walk fuel c rd (FreeList.disk_head d) nil = Ok d.
Proof. exact FreeList_proofs.encode_decode_any_tail. Qed.
Print Assumptions C19_freelist_encode_decode.

(* a sync started on a list as FreeList::read / commit leave it never panics (no failing unwrap,
   assert! or index in the mirrored code) and leaves such a list again: the hypothesis [clean_b]
   of the theorems below holds before every sync of every history *)
Theorem C19_sync_total : forall cap, (2 <= cap)%nat -> forall s bump ops,
    FreeList.clean_b cap s = true ->
    exists got s' bump' ws,
      FreeList.sync_all cap s bump ops = Some (got, s', bump', ws) /\ FreeList.clean_b cap s' = true.
Proof. exact FreeList_proofs.sync_total. Qed.
Print Assumptions C19_sync_total.

(* no page is lost, none is duplicated, none is both free and live: if live pages, free items and
   portion pages are exactly [1, bump) before a sync, then after ANY sequence of allocations and
   releases followed by finish they are exactly [1, bump'), with live' = live - released + allocated *)
Theorem C19_freelist_conservation : forall cap, (1 <= cap)%nat ->
    forall s bump ops live got s' bump' ws,
    FreeList.clean_b cap s = true -> (1 <= bump)%N ->
    FreeList.covers (live ++ FreeList.tracked (FreeList.fl_portions s)) bump ->
    FreeList.sync_all cap s bump ops = Some (got, s', bump', ws) ->
    FreeList.ops_ok live ops got ->
    FreeList.covers (FreeList.live_after live ops got ++ FreeList.tracked (FreeList.fl_portions s')) bump' /\
    Permutation (FreeList.live_after live ops got ++ FreeList.released_of ops) (live ++ got) /\
    FreeList.fl_released s' = nil /\ FreeList.fl_pop s' = false.
Proof. exact FreeList_proofs.freelist_conservation. Qed.
Print Assumptions C19_freelist_conservation.

(* every page handed out was a free item of the start state or lies in [bump, bump') *)
Theorem C19_allocate_fresh_or_free : forall cap, (1 <= cap)%nat ->
    forall s bump ops got s' bump' ws,
    FreeList.clean_b cap s = true ->
    FreeList.sync_all cap s bump ops = Some (got, s', bump', ws) ->
    forall pn, In pn got -> In pn (FreeList.stack (FreeList.fl_portions s)) \/ (bump <= pn /\ pn < bump')%N.
Proof. exact FreeList_proofs.allocate_fresh_or_free. Qed.
Print Assumptions C19_allocate_fresh_or_free.

(* the pages handed out in one sync are pairwise distinct and none of them was live *)
Theorem C19_allocate_distinct : forall cap, (1 <= cap)%nat ->
    forall s bump ops live got s' bump' ws,
    FreeList.clean_b cap s = true ->
    FreeList.covers (live ++ FreeList.tracked (FreeList.fl_portions s)) bump ->
    FreeList.sync_all cap s bump ops = Some (got, s', bump', ws) ->
    NoDup got /\ forall pn, In pn got -> ~ In pn live.
Proof. exact FreeList_proofs.allocate_distinct. Qed.
Print Assumptions C19_allocate_distinct.

(* pages freed in a sync are not reused in it (clause of C17): a page released at some point of a
   sync is not handed out by any later allocation of that sync, is not among the pages the commit
   of the free list writes, and is a free item of the new list *)
Theorem C19_no_reuse_within_sync : forall cap, (1 <= cap)%nat ->
    forall s bump ops1 pn ops2 live got s' bump' ws,
    FreeList.clean_b cap s = true -> (1 <= bump)%N ->
    FreeList.covers (live ++ FreeList.tracked (FreeList.fl_portions s)) bump ->
    FreeList.sync_all cap s bump (ops1 ++ FreeList.ORelease pn :: ops2) = Some (got, s', bump', ws) ->
    FreeList.ops_ok live (ops1 ++ FreeList.ORelease pn :: ops2) got ->
    ~ In pn (skipn (FreeList.n_allocs ops1) got) /\
    (forall w, In w ws -> fst (fst w) <> pn) /\
    In pn (FreeList.stack (FreeList.fl_portions s')).
Proof. exact FreeList_proofs.no_reuse_within_sync. Qed.
Print Assumptions C19_no_reuse_within_sync.

(* the frontier moves by the number of allocations that found the list empty plus the number of
   portion pages of the new list taken from the frontier; the latter are taken only when no item
   of the old list is left in place (the new list then consists of pushed pages only) *)
Theorem C19_frontier_accounting : forall cap, (1 <= cap)%nat ->
    forall s bump ops live got s' bump' ws,
    FreeList.clean_b cap s = true -> (1 <= bump)%N ->
    FreeList.covers (live ++ FreeList.tracked (FreeList.fl_portions s)) bump ->
    FreeList.sync_all cap s bump ops = Some (got, s', bump', ws) ->
    FreeList.ops_ok live ops got ->
    let bumps := (FreeList.n_allocs ops - length (FreeList.stack (FreeList.fl_portions s)))%nat in
    let k := length (filter (fun h => (bump + N.of_nat bumps <=? h)%N) (FreeList.heads (FreeList.fl_portions s'))) in
    bump' = (bump + N.of_nat bumps + N.of_nat k)%N /\
    ((0 < k)%nat -> exists extra,
        FreeList.stack (FreeList.fl_portions s') = rev (FreeList.released_of ops ++ extra)).
Proof. exact FreeList_proofs.frontier_accounting. Qed.
Print Assumptions C19_frontier_accounting.

(* CleanFreeList::get_nth_pop (index arithmetic, both shapes) is the n-th pop *)
Theorem C19_get_nth_pop_spec : forall cap, (1 <= cap)%nat -> forall s n,
    FreeList.clean_b cap s = true -> (n < FreeList.fl_len s)%nat ->
    FreeList.get_nth_pop cap s n = nth_error (FreeList.stack (FreeList.fl_portions s)) n.
Proof. exact FreeList_proofs.get_nth_pop_spec. Qed.
Print Assumptions C19_get_nth_pop_spec.

(* copy on write of the free list itself (the free-list half of C17's "old image stays intact"):
   every page the commit of the free list writes is a portion page of the NEW list and was, in the
   old image, a free item or beyond the frontier - not live, not released, not handed out in this
   sync, and never a portion page of the old list (no exception: an untouched portion that becomes
   the head is not re-encoded) *)
Theorem C19_sync_cow : forall cap, (2 <= cap)%nat ->
    forall s bump ops live got s' bump' ws,
    FreeList.clean_b cap s = true -> (1 <= bump)%N ->
    FreeList.covers (live ++ FreeList.tracked (FreeList.fl_portions s)) bump ->
    FreeList.sync_all cap s bump ops = Some (got, s', bump', ws) ->
    FreeList.ops_ok live ops got ->
    forall w, In w ws ->
      let pn := fst (fst w) in
      In pn (FreeList.heads (FreeList.fl_portions s')) /\
      ~ In pn live /\ ~ In pn got /\ ~ In pn (FreeList.released_of ops) /\
      ~ In pn (FreeList.heads (FreeList.fl_portions s)) /\
      (In pn (FreeList.stack (FreeList.fl_portions s)) \/ (bump <= pn /\ pn < bump')%N).
Proof. exact FreeList_proofs.sync_cow. Qed.
Print Assumptions C19_sync_cow.

(* what is on disk after a sync is the list the code holds in memory: Image.free_walk (equally
   FreeList::read at the next open) from the new head over the old file content with the pages
   written by the commit replaced returns exactly the new list (the page of an untouched portion
   that became the head is not written and still decodes to that portion) *)
Theorem C19_sync_disk : forall cap, (2 <= cap)%nat -> (cap <= 1022)%nat ->
    forall s bump ops live got s' bump' ws rd0 rd1 c fuel,
    FreeList.clean_b cap s = true -> (1 <= bump)%N -> (bump' <= 2 ^ 32)%N ->
    FreeList.covers (live ++ FreeList.tracked (FreeList.fl_portions s)) bump ->
    FreeList.sync_all cap s bump ops = Some (got, s', bump', ws) ->
    FreeList.ops_ok live ops got ->
    FreeList_proofs.serves rd0 (FreeList.to_disk (FreeList.fl_portions s)) ->
    (forall w, In w ws -> FreeList_proofs.served rd1 w) ->
    (forall pn, (forall w, In w ws -> fst (fst w) <> pn) -> rd1 pn = rd0 pn) ->
    (length (FreeList.fl_portions s') <= fuel)%nat ->
    free_walk fuel c rd1 (FreeList.head_pn s') nil = Ok (FreeList.to_disk (FreeList.fl_portions s')).
Proof. exact FreeList_proofs.sync_disk. Qed.
Print Assumptions C19_sync_disk.

(* the starting point: FreeList::read of a decoded list of the expected shape is clean *)
Theorem C19_fl_read_clean : forall cap d,
    FreeList.shape_b cap (FreeList.of_disk d) = true -> FreeList.clean_b cap (FreeList.fl_read cap d) = true.
Proof. exact FreeList_proofs.fl_read_clean. Qed.
Print Assumptions C19_fl_read_clean.
