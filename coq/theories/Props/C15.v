(* C15 - Sessions see one committed state; readers and the writer exclude each other
   (model of the access-lock protocol of lib.rs). *)
From Nomt Require Import Base Locks Base_proofs Locks_proofs.

Theorem C15_excl : forall c n ls s t b r,
  lrun (linit c n) ls s -> nth t (threads s) TIdle = TWriting b r ->
  forall t', (exists snap, nth t' (threads s) TIdle = TSession snap) -> False.
Proof. exact Locks_proofs.excl. Qed.
Print Assumptions C15_excl.

Theorem C15_snapshot : forall c n ls s t snap k v ls' s',
  lrun (linit c n) ls s -> nth t (threads s) TIdle = TSession snap ->
  lrun s ls' s' -> nth t (threads s') TIdle = TSession snap ->
  (forall l, In l ls' -> l <> LEnd t /\ l <> LFinish t) ->
  forall s'', lstep s' (LRead t k v) s'' -> v = get snap k.
Proof. exact Locks_proofs.snapshot. Qed.
Print Assumptions C15_snapshot.

Theorem C15_commit_ok_effect : forall s t s', lstep s (LCommitOk t) s' ->
  exists b r, nth t (threads s) TIdle = TWriting b r /\ lcur s = b /\ lcur s' = r.
Proof. exact Locks_proofs.commit_ok_effect. Qed.
Print Assumptions C15_commit_ok_effect.

Theorem C15_commit_stale_effect : forall s t s', lstep s (LCommitStale t) s' ->
  lcur s' = lcur s /\ exists b r, nth t (threads s) TIdle = TWriting b r /\ lcur s <> b.
Proof. exact Locks_proofs.commit_stale_effect. Qed.
Print Assumptions C15_commit_stale_effect.

Theorem C15_only_commit_changes : forall s l s', lstep s l s' ->
  (forall t, l <> LCommitOk t) -> lcur s' = lcur s.
Proof. exact Locks_proofs.only_commit_changes. Qed.
Print Assumptions C15_only_commit_changes.

Theorem C15_nb_returns : forall s t s', lstep s (LDeferred t) s' -> s' = s.
Proof. exact Locks_proofs.nb_returns. Qed.
Print Assumptions C15_nb_returns.

Theorem C15_no_deadlock : forall c n ls s,
  lrun (linit c n) ls s ->
  (exists t, t < length (threads s) /\ nth t (threads s) TIdle <> TIdle) ->
  exists l s', lstep s l s'.
Proof. exact Locks_proofs.no_deadlock. Qed.
Print Assumptions C15_no_deadlock.
