(* C15 - Sessions see one committed state; readers and the writer exclude each other
   (model of the access-lock protocol of lib.rs).  A change set carries the commit count its session
   was taken on ([ver]); the check under the write guard compares the state AND that count. *)
From Nomt Require Import Base Locks Base_proofs Locks_proofs.

Theorem C15_excl : forall c n ls s t b r v,
  lrun (linit c n) ls s -> nth t (threads s) TIdle = TWriting b r v ->
  forall t', (exists snap v', nth t' (threads s) TIdle = TSession snap v') -> False.
Proof. exact Locks_proofs.excl. Qed.
Print Assumptions C15_excl.

Theorem C15_snapshot : forall c n ls s t snap ver k v ls' s',
  lrun (linit c n) ls s -> nth t (threads s) TIdle = TSession snap ver ->
  lrun s ls' s' -> nth t (threads s') TIdle = TSession snap ver ->
  (forall l, In l ls' -> l <> LEnd t /\ l <> LFinish t) ->
  forall s'', lstep s' (LRead t k v) s'' -> v = get snap k.
Proof. exact Locks_proofs.snapshot. Qed.
Print Assumptions C15_snapshot.

Theorem C15_commit_ok_effect : forall s t s', lstep s (LCommitOk t) s' ->
  exists b r v, nth t (threads s) TIdle = TWriting b r v /\ lcur s = b /\ lver s = v /\
                lcur s' = r /\ lver s' = (lver s + 1)%N.
Proof. exact Locks_proofs.commit_ok_effect. Qed.
Print Assumptions C15_commit_ok_effect.

Theorem C15_commit_stale_effect : forall s t s', lstep s (LCommitStale t) s' ->
  lcur s' = lcur s /\ lver s' = lver s /\
  exists b r v, nth t (threads s) TIdle = TWriting b r v /\ ~ (lcur s = b /\ lver s = v).
Proof. exact Locks_proofs.commit_stale_effect. Qed.
Print Assumptions C15_commit_stale_effect.

Theorem C15_commit_decided : forall s t b r v, nth t (threads s) TIdle = TWriting b r v ->
  ((exists s', lstep s (LCommitOk t) s') <-> (lcur s = b /\ lver s = v)) /\
  ((exists s', lstep s (LCommitStale t) s') <-> ~ (lcur s = b /\ lver s = v)).
Proof. exact Locks_proofs.commit_decided. Qed.
Print Assumptions C15_commit_decided.

Theorem C15_aba_stale : forall c n ls0 s t b r v ls s',
  lrun (linit c n) ls0 s -> nth t (threads s) TIdle = TFinished b r v ->
  lrun s ls s' -> (exists t', In (LCommitOk t') ls) ->
  nth t (threads s') TIdle = TWriting b r v ->
  (forall s'', ~ lstep s' (LCommitOk t) s'') /\
  (exists s'', lstep s' (LCommitStale t) s'' /\ lcur s'' = lcur s' /\ lver s'' = lver s').
Proof. exact Locks_proofs.aba_stale. Qed.
Print Assumptions C15_aba_stale.

Example C15_aba_run_example :
  let k := [true] in
  exists s', lrun (linit [] 2)
     [LBegin 0; LFinish 0;
      LBegin 1; LFinish 1; LAcquire 1; LCommitOk 1;
      LBegin 1; LFinish 1; LAcquire 1; LCommitOk 1;
      LAcquire 0] s' /\
    lcur s' = [] /\ nth 0 (threads s') TIdle = TWriting [] [(k, 7%N)] 0%N /\ lver s' = 2%N /\
    (forall s'', ~ lstep s' (LCommitOk 0) s'') /\
    (exists s'', lstep s' (LCommitStale 0) s'' /\ lcur s'' = [] /\ lver s'' = 2%N).
Proof. exact Locks_proofs.aba_run_example. Qed.
Print Assumptions C15_aba_run_example.

Theorem C15_only_commit_changes : forall s l s', lstep s l s' ->
  (forall t, l <> LCommitOk t) -> lcur s' = lcur s /\ lver s' = lver s.
Proof. exact Locks_proofs.only_commit_changes. Qed.
Print Assumptions C15_only_commit_changes.

Theorem C15_nb_returns : forall s t s', lstep s (LDeferred t) s' -> s' = s.
Proof. exact Locks_proofs.nb_returns. Qed.
Print Assumptions C15_nb_returns.

Theorem C15_no_deadlock : forall c n ls s,
  lrun (linit c n) ls s ->
  (exists t, t < length (threads s) /\ nth t (threads s) TIdle <> TIdle) ->
  exists l s', lstep s l s'.
Proof. exact Locks_proofs.no_deadlock. Qed.
Print Assumptions C15_no_deadlock.
