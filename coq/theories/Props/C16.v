(* C16 - The on-disk image always decodes to the abstract state: soundness lemmas of the Coq
   decoder's checks (the decoder itself is run on the real files at every quiescent point). *)
From Nomt Require Import Base Image.

Theorem C16_page_accounting_sound : forall img, wf_pages_disjoint img = true ->
    (NoDup (ln_pages img) /\
     forall pn, In pn (ln_pages img) <-> (1 <= pn /\ pn < mf_ln_bump (i_manifest img)))%N
    /\ (NoDup (bbn_pages img) /\
        forall pn, In pn (bbn_pages img) <-> (1 <= pn /\ pn < mf_bbn_bump (i_manifest img)))%N.
Proof. exact Image.wf_pages_disjoint_sound. Qed.
Print Assumptions C16_page_accounting_sound.

(* a successful probe really walks the probe sequence to the target bucket over occupied buckets *)
Theorem C16_probe_sound : forall fuel mm buckets target b s,
    probe fuel mm buckets target b s = None ->
    exists k, (k < fuel)%nat /\ seqpos buckets b s k = target /\
              forall j, (j < k)%nat -> nfind (seqpos buckets b s j) mm <> None.
Proof. exact Image.probe_sound. Qed.
Print Assumptions C16_probe_sound.

(* a decoded page label is the encoding (as the code computes it) of a page id of depth <= 42 *)
Theorem C16_label_sound : forall lab p, label_pageid lab = Some p ->
    pageid_encode p = lab /\ (length p <= 42)%nat /\ Forall (fun i => (i < 64)%N) p.
Proof. exact Image.label_pageid_sound. Qed.
Print Assumptions C16_label_sound.

(* ------------------------------------------------------------------------------------------ *)
(* the WAL blob format (Wal.v mirrors bitbox/wal.rs: WalBlobBuilder / WalBlobReader)            *)
From Nomt Require Import Result Wal Wal_proofs.

(* what the builder writes, the reader reads back: for every sync number below 2^32 and every
   list of well-formed entries *)
Theorem C16_wal_decode_encode : forall s es, (s < 2 ^ 32)%N -> wf_entries es ->
  Wal.decode (Wal.encode s es) = Ok (s, es).
Proof. exact Wal_proofs.decode_encode. Qed.
Print Assumptions C16_wal_decode_encode.

(* ANY byte string gets a verdict from the reader, and what it accepts has entries of the right
   shape (so recover's "mismatched number of changed nodes" cannot be reached) *)
Theorem C16_wal_decode_total : forall bytes, Wal.decode bytes <> Panic.
Proof. exact Wal_proofs.decode_total. Qed.
Print Assumptions C16_wal_decode_total.

Theorem C16_wal_decode_shape : forall bytes s es,
  Wal.decode bytes = Ok (s, es) -> List.Forall shape_entry es.
Proof. exact Wal_proofs.decode_shape. Qed.
Print Assumptions C16_wal_decode_shape.
