(* C16 - The on-disk image always decodes to the abstract state: soundness lemmas of the Coq
   decoder's checks (the decoder itself is run on the real files at every quiescent point). *)
From Nomt Require Import Base Image.

Theorem C16_page_accounting_sound : forall img, wf_pages_disjoint img = true ->
    (NoDup (ln_pages img) /\
     forall pn, In pn (ln_pages img) <-> (1 <= pn /\ pn < mf_ln_bump (i_manifest img)))%N
    /\ (NoDup (bbn_pages img) /\
        forall pn, In pn (bbn_pages img) <-> (1 <= pn /\ pn < mf_bbn_bump (i_manifest img)))%N.
Proof. exact Image.wf_pages_disjoint_sound. Qed.
Print Assumptions C16_page_accounting_sound.

(* a successful probe really walks the probe sequence to the target bucket over occupied buckets *)
Theorem C16_probe_sound : forall fuel mm buckets target b s,
    probe fuel mm buckets target b s = None ->
    exists k, (k < fuel)%nat /\ seqpos buckets b s k = target /\
              forall j, (j < k)%nat -> nfind (seqpos buckets b s j) mm <> None.
Proof. exact Image.probe_sound. Qed.
Print Assumptions C16_probe_sound.

(* a decoded page label is the encoding (as the code computes it) of a page id of depth <= 42 *)
Theorem C16_label_sound : forall lab p, label_pageid lab = Some p ->
    pageid_encode p = lab /\ (length p <= 42)%nat /\ Forall (fun i => (i < 64)%N) p.
Proof. exact Image.label_pageid_sound. Qed.
Print Assumptions C16_label_sound.

(* ------------------------------------------------------------------------------------------ *)
(* the WAL blob format (Wal.v mirrors bitbox/wal.rs: WalBlobBuilder / WalBlobReader)            *)
From Nomt Require Import Result Wal Wal_proofs.

(* what the builder writes, the reader reads back: for every sync number below 2^32 and every
   list of well-formed entries *)
Theorem C16_wal_decode_encode : forall s es, (s < 2 ^ 32)%N -> wf_entries es ->
  Wal.decode (Wal.encode s es) = Ok (s, es).
Proof. exact Wal_proofs.decode_encode. Qed.
Print Assumptions C16_wal_decode_encode.

(* ANY byte string gets a verdict from the reader, and what it accepts has entries of the right
   shape (so recover's "mismatched number of changed nodes" cannot be reached) *)
Theorem C16_wal_decode_total : forall bytes, Wal.decode bytes <> Panic.
Proof. exact Wal_proofs.decode_total. Qed.
Print Assumptions C16_wal_decode_total.

Theorem C16_wal_decode_shape : forall bytes s es,
  Wal.decode bytes = Ok (s, es) -> List.Forall shape_entry es.
Proof. exact Wal_proofs.decode_shape. Qed.
Print Assumptions C16_wal_decode_shape.

(* ------------------------------------------------------------------------------------------ *)
(* the read path (ReadPath.v mirrors beatree/index.rs Index::lookup, ops/mod.rs partial_lookup /
   search_branch / find_key_pos / lookup_blocking, leaf/node.rs LeafNode::get with the standard
   library's binary_search_by) returns the abstraction of the decoded image                     *)
From Nomt Require Import ReadPath ReadPath_proofs.

(* every image the decoder produces keeps the branch references and the leaves in step, has no
   empty branch, and its prefix-compressed separators start with the branch's prefix *)
Theorem C16_decode_image_ok : forall fs img, decode_image fs = Image.Ok img -> decoded_ok img.
Proof. exact ReadPath_proofs.decode_image_ok. Qed.
Print Assumptions C16_decode_image_ok.

(* readpath_refines: on a decoded image whose leaf-order, branch and leaf-page accounting verdicts
   pass, NOMT's own lookup returns exactly the value the abstraction holds, for every key *)
Theorem C16_readpath_refines : forall fs img,
    decode_image fs = Image.Ok img ->
    wf_leaf_order img = true -> wf_branches img = true -> passes (wf_pages_ln_v img) = true ->
    forall k, lookup img k = assoc k (abs img).
Proof. exact ReadPath_proofs.readpath_refines. Qed.
Print Assumptions C16_readpath_refines.

(* the two levels on their own *)
Theorem C16_leaf_get_refines : forall l k, ssorted (map e_key (l_entries l)) ->
    option_map entry_value (leaf_get l k) = assoc k (entries_kv (l_entries l)).
Proof. exact ReadPath_proofs.leaf_get_refines. Qed.
Print Assumptions C16_leaf_get_refines.

Theorem C16_partial_lookup_spec : forall bs k, branches_ok bs ->
    partial_lookup bs k = option_map snd (pick fst (flat_map branch_refs bs) k).
Proof. exact ReadPath_proofs.partial_lookup_spec. Qed.
Print Assumptions C16_partial_lookup_spec.

(* the leaf the branch search chooses is the only one that can hold the key *)
Theorem C16_leaves_in_range_pick : forall ls k,
    leaves_in_range ls = None -> ssorted (map l_sep ls) ->
    assoc k (flat_map leaf_kv ls) =
    match pick l_sep ls k with None => None | Some l => assoc k (leaf_kv l) end.
Proof. exact ReadPath_proofs.leaves_in_range_pick. Qed.
Print Assumptions C16_leaves_in_range_pick.

(* a key below every first separator: no branch is consulted and the answer is None *)
Theorem C16_lookup_absent_below_first : forall img k,
    (forall b, In b (i_branches img) -> key_ltb k (first_sep b) = true) ->
    lookup img k = None /\ lookup_trace img k = TNoBranch.
Proof. exact ReadPath_proofs.lookup_absent_below_first. Qed.
Print Assumptions C16_lookup_absent_below_first.
