(* C16 - The on-disk image always decodes to the abstract state: soundness lemmas of the Coq
   decoder's checks (the decoder itself is run on the real files at every quiescent point). *)
From Nomt Require Import Base Image.

Theorem C16_page_accounting_sound : forall img, wf_pages_disjoint img = true ->
    (NoDup (ln_pages img) /\
     forall pn, In pn (ln_pages img) <-> (1 <= pn /\ pn < mf_ln_bump (i_manifest img)))%N
    /\ (NoDup (bbn_pages img) /\
        forall pn, In pn (bbn_pages img) <-> (1 <= pn /\ pn < mf_bbn_bump (i_manifest img)))%N.
Proof. exact Image.wf_pages_disjoint_sound. Qed.
Print Assumptions C16_page_accounting_sound.

(* a successful probe really walks the probe sequence to the target bucket over occupied buckets *)
Theorem C16_probe_sound : forall fuel mm buckets target b s,
    probe fuel mm buckets target b s = None ->
    exists k, (k < fuel)%nat /\ seqpos buckets b s k = target /\
              forall j, (j < k)%nat -> nfind (seqpos buckets b s j) mm <> None.
Proof. exact Image.probe_sound. Qed.
Print Assumptions C16_probe_sound.

(* a decoded page label is the encoding (as the code computes it) of a page id of depth <= 42 *)
Theorem C16_label_sound : forall lab p, label_pageid lab = Some p ->
    pageid_encode p = lab /\ (length p <= 42)%nat /\ Forall (fun i => (i < 64)%N) p.
Proof. exact Image.label_pageid_sound. Qed.
Print Assumptions C16_label_sound.

(* ------------------------------------------------------------------------------------------ *)
(* the WAL blob format (Wal.v mirrors bitbox/wal.rs: WalBlobBuilder / WalBlobReader)            *)
From Nomt Require Import Result Wal Wal_proofs.

(* what the builder writes, the reader reads back: for every sync number below 2^32 and every
   list of well-formed entries *)
Theorem C16_wal_decode_encode : forall s es, (s < 2 ^ 32)%N -> wf_entries es ->
  Wal.decode (Wal.encode s es) = Ok (s, es).
Proof. exact Wal_proofs.decode_encode. Qed.
Print Assumptions C16_wal_decode_encode.

(* ANY byte string gets a verdict from the reader, and what it accepts has entries of the right
   shape (so recover's "mismatched number of changed nodes" cannot be reached) *)
Theorem C16_wal_decode_total : forall bytes, Wal.decode bytes <> Panic.
Proof. exact Wal_proofs.decode_total. Qed.
Print Assumptions C16_wal_decode_total.

Theorem C16_wal_decode_shape : forall bytes s es,
  Wal.decode bytes = Ok (s, es) -> List.Forall shape_entry es.
Proof. exact Wal_proofs.decode_shape. Qed.
Print Assumptions C16_wal_decode_shape.

(* ------------------------------------------------------------------------------------------ *)
(* the read path (ReadPath.v mirrors beatree/index.rs Index::lookup, ops/mod.rs partial_lookup /
   search_branch / find_key_pos / lookup_blocking, leaf/node.rs LeafNode::get with the standard
   library's binary_search_by) returns the abstraction of the decoded image                     *)
From Nomt Require Import ReadPath ReadPath_proofs.

(* every image the decoder produces keeps the branch references and the leaves in step, has no
   empty branch, and its prefix-compressed separators start with the branch's prefix *)
Theorem C16_decode_image_ok : forall fs img, decode_image fs = Image.Ok img -> decoded_ok img.
Proof. exact ReadPath_proofs.decode_image_ok. Qed.
Print Assumptions C16_decode_image_ok.

(* readpath_refines: on a decoded image whose leaf-order, branch and leaf-page accounting verdicts
   pass, NOMT's own lookup returns exactly the value the abstraction holds, for every key *)
Theorem C16_readpath_refines : forall fs img,
    decode_image fs = Image.Ok img ->
    wf_leaf_order img = true -> wf_branches img = true -> passes (wf_pages_ln_v img) = true ->
    forall k, lookup img k = assoc k (abs img).
Proof. exact ReadPath_proofs.readpath_refines. Qed.
Print Assumptions C16_readpath_refines.

(* the two levels on their own *)
Theorem C16_leaf_get_refines : forall l k, ssorted (map e_key (l_entries l)) ->
    option_map entry_value (leaf_get l k) = assoc k (entries_kv (l_entries l)).
Proof. exact ReadPath_proofs.leaf_get_refines. Qed.
Print Assumptions C16_leaf_get_refines.

Theorem C16_partial_lookup_spec : forall bs k, branches_ok bs ->
    partial_lookup bs k = option_map snd (pick fst (flat_map branch_refs bs) k).
Proof. exact ReadPath_proofs.partial_lookup_spec. Qed.
Print Assumptions C16_partial_lookup_spec.

(* the leaf the branch search chooses is the only one that can hold the key *)
Theorem C16_leaves_in_range_pick : forall ls k,
    leaves_in_range ls = None -> ssorted (map l_sep ls) ->
    assoc k (flat_map leaf_kv ls) =
    match pick l_sep ls k with None => None | Some l => assoc k (leaf_kv l) end.
Proof. exact ReadPath_proofs.leaves_in_range_pick. Qed.
Print Assumptions C16_leaves_in_range_pick.

(* a key below every first separator: no branch is consulted and the answer is None *)
Theorem C16_lookup_absent_below_first : forall img k,
    (forall b, In b (i_branches img) -> key_ltb k (first_sep b) = true) ->
    lookup img k = None /\ lookup_trace img k = TNoBranch.
Proof. exact ReadPath_proofs.lookup_absent_below_first. Qed.
Print Assumptions C16_lookup_absent_below_first.

(* ------------------------------------------------------------------------------------------ *)
(* the page formats (NodeCodec.v: encoders written from LeafBuilder, BranchNodeBuilder,
   overflow.rs::chunk / encode_cell and Meta::encode_to): what the builders write, the decoder
   of Image.v reads back - for every input within the size constraints the builders assert, and
   whatever the regions hold that the builders leave undefined (the page pool does not zero)   *)
From Nomt Require Import NodeCodec NodeCodec_proofs.

Theorem C16_decode_encode_manifest : forall m, manifest_fits m = true ->
    decode_manifest (encode_manifest m) = Image.Ok m.
Proof. exact NodeCodec_proofs.decode_encode_manifest. Qed.
Print Assumptions C16_decode_encode_manifest.

Theorem C16_decode_encode_manifest_gen : forall tail m, manifest_fits m = true ->
    decode_manifest (encode_manifest_gen tail m) = Image.Ok m.
Proof. exact NodeCodec_proofs.decode_encode_manifest_gen. Qed.
Print Assumptions C16_decode_encode_manifest_gen.

(* leaves whose values are all in the leaf *)
Theorem C16_decode_encode_leaf : forall rd lpn sep es,
    leaf_fits es = true -> forallb inline_ok es = true ->
    decode_leaf rd lpn sep (encode_leaf es) = Image.Ok (mkLeaf lpn sep es).
Proof. exact NodeCodec_proofs.decode_encode_leaf. Qed.
Print Assumptions C16_decode_encode_leaf.

(* leaves with overflow cells, any content of the gap between cell pointers and cells *)
Theorem C16_decode_encode_leaf_gen : forall rd lpn sep gap es,
    leaf_fits es = true -> Forall (entry_decodes rd lpn) es ->
    length gap = N.to_nat (leaf_gap es) ->
    decode_leaf rd lpn sep (encode_leaf_gen gap es) = Image.Ok (mkLeaf lpn sep es).
Proof. exact NodeCodec_proofs.decode_encode_leaf_gen. Qed.
Print Assumptions C16_decode_encode_leaf_gen.

(* an overflow cell and the chain of overflow pages it refers to *)
Theorem C16_decode_encode_overflow : forall rd lpn o pages rest,
    ovf_cell_fits o = true ->
    Forall (page_served rd) pages ->
    length pages = N.to_nat (total_needed_pages (o_size o)) ->
    chain_rest (o_cell_pages o) pages = Some rest ->
    decode_overflow rd lpn (ovf_cell o)
    = Image.Ok (concat (map op_bytes pages), Image.lenN (concat (map op_bytes pages)),
                mkOverflow (o_size o) (o_hash o) (o_cell_pages o) (map op_pn pages ++ rest) true).
Proof. exact NodeCodec_proofs.decode_encode_overflow. Qed.
Print Assumptions C16_decode_encode_overflow.

(* branches, bit-packed separator suffixes and prefix compression included *)
Theorem C16_decode_encode_branch : forall pn bbn pc plen seps pns,
    branch_ok bbn pc plen seps pns = true ->
    decode_branch pn (encode_branch bbn pc plen seps pns)
    = Image.Ok (mkBranch pn bbn pc plen (map fst seps) pns).
Proof. exact NodeCodec_proofs.decode_encode_branch. Qed.
Print Assumptions C16_decode_encode_branch.

Theorem C16_decode_encode_branch_gen : forall pn padbits gap bbn pc plen seps pns,
    branch_ok bbn pc plen seps pns = true ->
    (exists k, length (branch_bitvec pc plen seps ++ padbits) = 8 * k /\ length padbits < 8)%nat ->
    length gap = N.to_nat (branch_gap pc plen seps) ->
    decode_branch pn (encode_branch_gen padbits gap bbn pc plen seps pns)
    = Image.Ok (mkBranch pn bbn pc plen (map fst seps) pns).
Proof. exact NodeCodec_proofs.decode_encode_branch_gen. Qed.
Print Assumptions C16_decode_encode_branch_gen.

Theorem C16_encode_leaf_length : forall es,
    leaf_fits es = true -> Forall (fun e => length (e_key e) = 256%nat) es ->
    length (encode_leaf es) = 4096%nat.
Proof. exact NodeCodec_proofs.encode_leaf_length. Qed.
Print Assumptions C16_encode_leaf_length.

Theorem C16_encode_branch_length : forall bbn pc plen seps pns,
    branch_ok bbn pc plen seps pns = true ->
    length (encode_branch bbn pc plen seps pns) = 4096%nat.
Proof. exact NodeCodec_proofs.encode_branch_length. Qed.
Print Assumptions C16_encode_branch_length.

Theorem C16_encode_overflow_page_length : forall pns bytes, ovf_page_fits pns bytes = true ->
    length (encode_overflow_page pns bytes) = 4096%nat.
Proof. exact NodeCodec_proofs.encode_overflow_page_length. Qed.
Print Assumptions C16_encode_overflow_page_length.

Theorem C16_encode_manifest_length : forall m, manifest_fits m = true ->
    length (encode_manifest m) = 4096%nat.
Proof. exact NodeCodec_proofs.encode_manifest_length. Qed.
Print Assumptions C16_encode_manifest_length.

(* a value cut into overflow pages the way overflow.rs::chunk does it (NodeCodec.chunk), read back
   through the cell: the value itself, for every size up to MAX_OVERFLOW_VALUE_SIZE - the page
   count of total_needed_pages is enough and the reading order is the allocation order *)
Theorem C16_decode_encode_overflow_value : forall rd lpn value hash all,
    (1 <= Image.lenN value)%N -> (Image.lenN value <= MAX_OVERFLOW_VALUE_SIZE)%N ->
    length all = N.to_nat (Image.total_needed_pages (Image.lenN value)) ->
    Forall (fun x => (x < 2 ^ 32)%N) all -> length hash = 32%nat ->
    (forall p, In p (chunk value all) ->
               exists tail, rd (op_pn p) = Some (encode_overflow_page_gen tail (op_pns p) (op_bytes p))
                            /\ length (encode_overflow_page_gen tail (op_pns p) (op_bytes p)) = 4096%nat) ->
    decode_overflow rd lpn (ovf_cell (mkOverflow (Image.lenN value) hash (firstn 15 all) all true))
    = Image.Ok (value, Image.lenN value, mkOverflow (Image.lenN value) hash (firstn 15 all) all true).
Proof. exact NodeCodec_proofs.decode_encode_overflow_value. Qed.
Print Assumptions C16_decode_encode_overflow_value.

(* the re-encoding check of the img engine (command imgreencode): the segment description that is
   compared with the file is the encoder's page, and a comparison without differences means that the
   file's page has 4096 bytes and agrees with the encoder's page on every defined bit *)
Theorem C16_leaf_segs_bytes : forall es, seg_bytes (leaf_segs es) = encode_leaf es.
Proof. exact NodeCodec_proofs.leaf_segs_bytes. Qed.
Print Assumptions C16_leaf_segs_bytes.

Theorem C16_branch_segs_bytes : forall bbn pc plen seps pns,
    seg_bytes (branch_segs bbn pc plen seps pns) = encode_branch bbn pc plen seps pns.
Proof. exact NodeCodec_proofs.branch_segs_bytes. Qed.
Print Assumptions C16_branch_segs_bytes.

Theorem C16_ovf_segs_bytes : forall pns bytes,
    seg_bytes (ovf_segs pns bytes) = encode_overflow_page pns bytes.
Proof. exact NodeCodec_proofs.ovf_segs_bytes. Qed.
Print Assumptions C16_ovf_segs_bytes.

Theorem C16_manifest_segs_bytes : forall m, seg_bytes (manifest_segs m) = encode_manifest m.
Proof. exact NodeCodec_proofs.manifest_segs_bytes. Qed.
Print Assumptions C16_manifest_segs_bytes.

Theorem C16_compare_segs_sound : forall l real,
    fst (fst (compare_segs l real)) = [] ->
    agree (seg_mask l) (seg_bytes l) real /\ length real = 4096%nat.
Proof. exact NodeCodec_proofs.compare_segs_sound. Qed.
Print Assumptions C16_compare_segs_sound.
