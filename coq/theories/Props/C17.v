(* C17 - The previous durable image stays intact until the switch-over. *)
From Nomt Require Import Base SyncProto SyncProto_proofs.

(* For every trace accepted by the monitor: at every cut up to the manifest's fsync and in EVERY
   power-loss image (hence also in the volatile state), every page the old image references
   (value pages, branch pages, free-list pages) and every hash-table page it holds has its old
   content. *)
Theorem C17_old_image_intact : forall I d0 tr,
  inst_ok I -> start_ok I d0 -> discipline I d0 tr = true ->
  forall n img, (forall is_, index_of is_meta_sync tr = Some is_ -> n <= is_) ->
  pl_image (drun d0 (firstn n tr)) img ->
  pages_ok img (live_old I) = true /\ ht_all img (ht_old I) = true.
Proof. exact SyncProto_proofs.old_image_intact. Qed.
Print Assumptions C17_old_image_intact.

(* ------------------------------------------------------------------------------------------ *)
(* ... "its rollback records": the segmented rollback log (RbProto.v: a directory of append-only *)
(* segment files under power loss; monitor rb_discipline evaluated on the real I/O trace of every  *)
(* sync by the rbtrace engine, instance decoded from the pre-sync segment files).                *)
From Nomt Require RbProto RbProto_proofs.

(* For every trace accepted by the monitor: at every cut up to the manifest's fsync and in EVERY
   power-loss image (any subset of the unsynced block writes, creations and unlinks surviving),
   every record of the old live range is completely present at its place, whichever manifest the
   image holds. *)
Theorem C17_rollback_records_intact : forall I d0 tr,
  RbProto.rb_inst_okb I = true -> RbProto.rb_start_okb I d0 = true -> RbProto.rb_discipline I d0 tr = true ->
  forall n img,
  (forall is_, RbProto.index_of RbProto.is_meta_sync tr = Some is_ -> n <= is_) ->
  RbProto.rb_pl_image (RbProto.rb_run d0 (firstn n tr)) img ->
  RbProto.rb_recover (RbProto.o_recs I) (RbProto.o_start I) (RbProto.o_end I) img = true.
Proof. exact RbProto_proofs.rb_old_range_intact. Qed.
Print Assumptions C17_rollback_records_intact.
