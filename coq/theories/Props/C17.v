(* C17 - The previous durable image stays intact until the switch-over. *)
From Nomt Require Import Base SyncProto SyncProto_proofs SrcFacts_proofs.

(* For every trace accepted by the monitor: at every cut up to the manifest's fsync and in EVERY
   power-loss image (hence also in the volatile state), every page the old image references
   (value pages, branch pages, free-list pages) and every hash-table page it holds has its old
   content. *)
Theorem C17_old_image_intact : forall I d0 tr,
  inst_ok I -> start_ok I d0 -> discipline I d0 tr = true ->
  forall n img, (forall is_, index_of is_meta_sync tr = Some is_ -> n <= is_) ->
  pl_image (drun d0 (firstn n tr)) img ->
  pages_ok img (live_old I) = true /\ ht_all img (ht_old I) = true.
Proof. exact SyncProto_proofs.old_image_intact. Qed.
Print Assumptions C17_old_image_intact.

Theorem C17_sync_phase_order : sync_order_ok = true /\ sync_order_ok2 = true.
Proof. exact SrcFacts_proofs.sync_order_ok_true. Qed.
Print Assumptions C17_sync_phase_order.
