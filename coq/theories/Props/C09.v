(* C09 - Rollback restores exactly the state n commits ago (abstract machine level). *)
From Nomt Require Import Base Store Rollback Base_proofs Store_proofs Rollback_proofs.

Theorem C09_rollback_undoes_commits : forall st h n limit,
  max_len st = Some limit -> n = length h -> 0 < n -> n <= limit ->
  exists st', rollback (run_commits st h) n = (st', ROk) /\ cur st' = cur st.
Proof. exact Store_proofs.rollback_undoes_commits. Qed.
Print Assumptions C09_rollback_undoes_commits.

Theorem C09_rollback_additive : forall st k m st1 st2 st3,
  k > 0 -> m > 0 ->
  rollback st k = (st1, ROk) -> rollback st1 m = (st2, ROk) -> rollback st (k + m) = (st3, ROk) ->
  cur st2 = cur st3 /\ hist st2 = hist st3.
Proof. exact Store_proofs.rollback_additive. Qed.
Print Assumptions C09_rollback_additive.

Theorem C09_rollback_additive_ok : forall st k m st1 st2,
  k > 0 -> m > 0 -> rollback st k = (st1, ROk) -> rollback st1 m = (st2, ROk) ->
  exists st3, rollback st (k + m) = (st3, ROk).
Proof. exact Store_proofs.rollback_additive_ok. Qed.
Print Assumptions C09_rollback_additive_ok.

(* a request that cannot be served fails without changing anything *)
Theorem C09_rollback_fail_noop : forall st n st', rollback st n = (st', RErr) -> st' = st.
Proof. exact Store_proofs.rollback_fail_noop. Qed.
Print Assumptions C09_rollback_fail_noop.

Theorem C09_log_bounded : forall n h s, length h <= n -> length (push_hist (Some n) h s) <= n.
Proof. exact Store_proofs.push_hist_bound. Qed.
Print Assumptions C09_log_bounded.

(* The reverse-delta log of nomt/src/rollback (mirrored in Rollback.v: priors recorded per commit,
   truncate merging the n newest deltas so that the OLDEST prior wins) refines the snapshot
   semantics above: applying the traceback to the current state yields exactly the state n
   commits ago, for every history of batches and every n. *)
Theorem C09_rollback_refines_snapshots : forall (batches : list (list change)) S0 n,
  kv_sorted S0 = true -> n <= length batches ->
  let '(Sfinal, ds) := run_log S0 batches [] in
  rollback_apply Sfinal ds n = fst (run_log S0 (firstn (length batches - n) batches) []).
Proof. exact Rollback_proofs.rollback_refines_snapshots. Qed.
Print Assumptions C09_rollback_refines_snapshots.

Theorem C09_rollback_log_additive : forall (batches : list (list change)) S0 k m,
  kv_sorted S0 = true -> k + m <= length batches ->
  let '(Sfinal, ds) := run_log S0 batches [] in
  rollback_apply (rollback_apply Sfinal ds k) (skipn k ds) m = rollback_apply Sfinal ds (k + m).
Proof. exact Rollback_proofs.rollback_log_additive. Qed.
Print Assumptions C09_rollback_log_additive.

(* The codec of the records of the rollback log (nomt/src/rollback/delta.rs, mirrored in
   DeltaCodec.v; the extracted decoder is run on every record of real logs by the rbtrace engine).
   What the log stores for a commit decodes to exactly the reverse delta that was encoded, whatever
   the order in which the HashMap was visited: same entries, an absent prior stays None, an empty
   prior value stays Some []. *)
From Coq Require Import List NArith Permutation.
From Nomt Require Import Result DeltaCodec DeltaCodec_proofs.
Import ListNotations.

Theorem C09_delta_decode_encode : forall p, wf_priors p ->
  exists q, delta_decode (delta_encode p) = Ok q /\
            q = priors_of (groups_of p) /\
            Permutation q p /\
            NoDup (map fst q) /\
            (forall k, In k (map fst q) <-> In k (map fst p)) /\
            (forall k, alookup k q = alookup k p).
Proof. exact DeltaCodec_proofs.delta_decode_encode. Qed.
Print Assumptions C09_delta_decode_encode.

Theorem C09_delta_decode_order : forall p p', wf_priors p -> Permutation p p' ->
  exists q q', delta_decode (delta_encode p) = Ok q /\ delta_decode (delta_encode p') = Ok q' /\
               Permutation q q' /\ forall k, alookup k q = alookup k q'.
Proof. exact DeltaCodec_proofs.delta_decode_order. Qed.
Print Assumptions C09_delta_decode_order.

(* the reader of the log never panics on a record, whatever its bytes *)
Theorem C09_delta_decode_total : forall bytes, delta_decode bytes <> Panic.
Proof. exact DeltaCodec_proofs.delta_decode_total. Qed.
Print Assumptions C09_delta_decode_total.

Theorem C09_delta_encode_inj : forall p1 p2, wf_priors p1 -> wf_priors p2 ->
  delta_encode p1 = delta_encode p2 ->
  Permutation p1 p2 /\ forall k, alookup k p1 = alookup k p2.
Proof. exact DeltaCodec_proofs.delta_encode_inj. Qed.
Print Assumptions C09_delta_encode_inj.

(* a record that decodes is the encoding of what it decodes to (followed by ignored bytes) *)
Theorem C09_delta_reencode : forall bytes g r, Forall byte bytes ->
  decode_groups bytes = Ok (g, r) -> encode_groups g ++ r = bytes /\ wf_groups g.
Proof. exact DeltaCodec_proofs.delta_reencode. Qed.
Print Assumptions C09_delta_reencode.

(* non-vacuity: an erased key, an empty prior value and a 300-byte prior value, visited in a mixed order *)
Theorem C09_delta_example_wf : wf_priors ex_delta.
Proof. exact DeltaCodec_proofs.ex_delta_wf. Qed.
Print Assumptions C09_delta_example_wf.

Theorem C09_delta_example_roundtrip :
  delta_decode (delta_encode ex_delta) = Ok [(ex_key 1, None); (ex_key 3, Some ex_long); (ex_key 2, Some [])].
Proof. exact DeltaCodec_proofs.ex_delta_roundtrip. Qed.
Print Assumptions C09_delta_example_roundtrip.

Theorem C09_delta_empty_value_is_not_erase :
  delta_decode (delta_encode [(ex_key 2, Some [])]) = Ok [(ex_key 2, Some [])] /\
  delta_decode (delta_encode [(ex_key 2, None)]) = Ok [(ex_key 2, None)] /\
  delta_encode [(ex_key 2, Some [])] <> delta_encode [(ex_key 2, None)].
Proof. exact DeltaCodec_proofs.ex_empty_value_is_not_erase. Qed.
Print Assumptions C09_delta_empty_value_is_not_erase.
