(* C09 - Rollback restores exactly the state n commits ago (abstract machine level). *)
From Nomt Require Import Base Store Rollback Base_proofs Store_proofs Rollback_proofs.

Theorem C09_rollback_undoes_commits : forall st h n limit,
  max_len st = Some limit -> n = length h -> 0 < n -> n <= limit ->
  exists st', rollback (run_commits st h) n = (st', ROk) /\ cur st' = cur st.
Proof. exact Store_proofs.rollback_undoes_commits. Qed.
Print Assumptions C09_rollback_undoes_commits.

Theorem C09_rollback_additive : forall st k m st1 st2 st3,
  k > 0 -> m > 0 ->
  rollback st k = (st1, ROk) -> rollback st1 m = (st2, ROk) -> rollback st (k + m) = (st3, ROk) ->
  cur st2 = cur st3 /\ hist st2 = hist st3.
Proof. exact Store_proofs.rollback_additive. Qed.
Print Assumptions C09_rollback_additive.

Theorem C09_rollback_additive_ok : forall st k m st1 st2,
  k > 0 -> m > 0 -> rollback st k = (st1, ROk) -> rollback st1 m = (st2, ROk) ->
  exists st3, rollback st (k + m) = (st3, ROk).
Proof. exact Store_proofs.rollback_additive_ok. Qed.
Print Assumptions C09_rollback_additive_ok.

(* a request that cannot be served fails without changing anything *)
Theorem C09_rollback_fail_noop : forall st n st', rollback st n = (st', RErr) -> st' = st.
Proof. exact Store_proofs.rollback_fail_noop. Qed.
Print Assumptions C09_rollback_fail_noop.

Theorem C09_log_bounded : forall n h s, length h <= n -> length (push_hist (Some n) h s) <= n.
Proof. exact Store_proofs.push_hist_bound. Qed.
Print Assumptions C09_log_bounded.

(* The reverse-delta log of nomt/src/rollback (mirrored in Rollback.v: priors recorded per commit,
   truncate merging the n newest deltas so that the OLDEST prior wins) refines the snapshot
   semantics above: applying the traceback to the current state yields exactly the state n
   commits ago, for every history of batches and every n. *)
Theorem C09_rollback_refines_snapshots : forall (batches : list (list change)) S0 n,
  kv_sorted S0 = true -> n <= length batches ->
  let '(Sfinal, ds) := run_log S0 batches [] in
  rollback_apply Sfinal ds n = fst (run_log S0 (firstn (length batches - n) batches) []).
Proof. exact Rollback_proofs.rollback_refines_snapshots. Qed.
Print Assumptions C09_rollback_refines_snapshots.

Theorem C09_rollback_log_additive : forall (batches : list (list change)) S0 k m,
  kv_sorted S0 = true -> k + m <= length batches ->
  let '(Sfinal, ds) := run_log S0 batches [] in
  rollback_apply (rollback_apply Sfinal ds k) (skipn k ds) m = rollback_apply Sfinal ds (k + m).
Proof. exact Rollback_proofs.rollback_log_additive. Qed.
Print Assumptions C09_rollback_log_additive.

(* The codec of the records of the rollback log (nomt/src/rollback/delta.rs, mirrored in
   DeltaCodec.v; the extracted decoder is run on every record of real logs by the rbtrace engine).
   What the log stores for a commit decodes to exactly the reverse delta that was encoded, whatever
   the order in which the HashMap was visited: same entries, an absent prior stays None, an empty
   prior value stays Some []. *)
From Coq Require Import List NArith Permutation.
From Nomt Require Import Result DeltaCodec DeltaCodec_proofs.
Import ListNotations.

Theorem C09_delta_decode_encode : forall p, wf_priors p ->
  exists q, delta_decode (delta_encode p) = Ok q /\
            q = priors_of (groups_of p) /\
            Permutation q p /\
            NoDup (map fst q) /\
            (forall k, In k (map fst q) <-> In k (map fst p)) /\
            (forall k, alookup k q = alookup k p).
Proof. exact DeltaCodec_proofs.delta_decode_encode. Qed.
Print Assumptions C09_delta_decode_encode.

Theorem C09_delta_decode_order : forall p p', wf_priors p -> Permutation p p' ->
  exists q q', delta_decode (delta_encode p) = Ok q /\ delta_decode (delta_encode p') = Ok q' /\
               Permutation q q' /\ forall k, alookup k q = alookup k q'.
Proof. exact DeltaCodec_proofs.delta_decode_order. Qed.
Print Assumptions C09_delta_decode_order.

(* the reader of the log never panics on a record, whatever its bytes *)
Theorem C09_delta_decode_total : forall bytes, delta_decode bytes <> Panic.
Proof. exact DeltaCodec_proofs.delta_decode_total. Qed.
Print Assumptions C09_delta_decode_total.

Theorem C09_delta_encode_inj : forall p1 p2, wf_priors p1 -> wf_priors p2 ->
  delta_encode p1 = delta_encode p2 ->
  Permutation p1 p2 /\ forall k, alookup k p1 = alookup k p2.
Proof. exact DeltaCodec_proofs.delta_encode_inj. Qed.
Print Assumptions C09_delta_encode_inj.

(* a record that decodes is the encoding of what it decodes to (followed by ignored bytes) *)
Theorem C09_delta_reencode : forall bytes g r, Forall byte bytes ->
  decode_groups bytes = Ok (g, r) -> encode_groups g ++ r = bytes /\ wf_groups g.
Proof. exact DeltaCodec_proofs.delta_reencode. Qed.
Print Assumptions C09_delta_reencode.

(* non-vacuity: an erased key, an empty prior value and a 300-byte prior value, visited in a mixed order *)
Theorem C09_delta_example_wf : wf_priors ex_delta.
Proof. exact DeltaCodec_proofs.ex_delta_wf. Qed.
Print Assumptions C09_delta_example_wf.

Theorem C09_delta_example_roundtrip :
  delta_decode (delta_encode ex_delta) = Ok [(ex_key 1, None); (ex_key 3, Some ex_long); (ex_key 2, Some [])].
Proof. exact DeltaCodec_proofs.ex_delta_roundtrip. Qed.
Print Assumptions C09_delta_example_roundtrip.

Theorem C09_delta_empty_value_is_not_erase :
  delta_decode (delta_encode [(ex_key 2, Some [])]) = Ok [(ex_key 2, Some [])] /\
  delta_decode (delta_encode [(ex_key 2, None)]) = Ok [(ex_key 2, None)] /\
  delta_encode [(ex_key 2, Some [])] <> delta_encode [(ex_key 2, None)].
Proof. exact DeltaCodec_proofs.ex_empty_value_is_not_erase. Qed.
Print Assumptions C09_delta_empty_value_is_not_erase.

(* ------------------------------------------------------------------------------------------ *)
(* The BOOKKEEPING of the rollback log (nomt/src/rollback/mod.rs over nomt/src/seglog/mod.rs),   *)
(* mirrored line by line in RbBook.v: in-memory log + pending truncation, the segmented log's live *)
(* range and what is physically in the segment files, the manifest range written at every sync    *)
(* before the pruning, Rollback::read at open.  Three defects lived here (F7a, F7b, N8); the       *)
(* extracted model is replayed on every history of the rbtrace engine and compared, sync by sync,  *)
(* with the real manifest, the real segment files and the outcome of every rollback.               *)
From Coq Require Import Arith.
From Nomt Require Store RbBook RbBook_proofs.

(* For every max_rollback_log_len >= 1, every segment size, every history of commits (records of any
   size), rollbacks (any n) and reopenings, each followed by its sync as the code does: every operation
   has the outcome of the specification (a rollback is refused iff the specification refuses it; nothing
   ever fails), and the in-memory log is commit for commit the specification's bounded stack of
   snapshots - the number of rollbacks that can be served is its length. *)
Theorem C09_rbbook_refines : forall maxlen segsz ops, (1 <= maxlen)%nat ->
  forall s outs h c souts,
  RbBook.b_run RbBook.VCur (RbBook.b_init maxlen segsz) ops = (s, outs) ->
  RbBook.sp_run maxlen ([], 0%N) ops = ((h, c), souts) ->
  outs = souts /\ RbBook.b_abs s = h /\ length (RbBook.b_mem s) = length h /\ RbBook.b_tag s = c /\
  RbBook_proofs.binv s.
Proof. exact RbBook_proofs.rbbook_refines. Qed.
Print Assumptions C09_rbbook_refines.

(* the same against Store.v itself: outcomes of Store.rollback, and length (hist) *)
Theorem C09_rbbook_refines_store : forall maxlen segsz sops, (1 <= maxlen)%nat ->
  forall s outs st souts,
  RbBook.b_run RbBook.VCur (RbBook.b_init maxlen segsz) (map RbBook_proofs.bop_of sops) = (s, outs) ->
  RbBook_proofs.store_run (Store.init (Some maxlen)) sops = (st, souts) ->
  outs = souts /\ length (RbBook.b_mem s) = length (Store.hist st) /\ RbBook_proofs.binv s.
Proof. exact RbBook_proofs.rbbook_refines_store. Qed.
Print Assumptions C09_rbbook_refines_store.

(* no panic in prune_oldest, no "Failed to find the last live record in the head segment", no failure of
   seglog::open - in no history *)
Theorem C09_rbbook_never_fails : forall maxlen segsz ops e, (1 <= maxlen)%nat ->
  ~ In (RbBook.OFail e) (snd (RbBook.b_run RbBook.VCur (RbBook.b_init maxlen segsz) ops)).
Proof. exact RbBook_proofs.rbbook_never_fails. Qed.
Print Assumptions C09_rbbook_never_fails.

(* after any history: nothing pending, the log bounded, every delta in memory physically present under its
   record id (a rollback the specification allows finds every record it needs), the manifest's range
   contains the in-memory log, and a reopening loads exactly the in-memory log again *)
Theorem C09_rbbook_reachable : forall maxlen segsz ops, (1 <= maxlen)%nat ->
  let s := fst (RbBook.b_run RbBook.VCur (RbBook.b_init maxlen segsz) ops) in
  RbBook.b_pend s = None /\ (length (RbBook.b_mem s) <= maxlen)%nat /\
  (forall x, In x (RbBook.b_mem s) ->
     exists r, In r (RbBook.phys (RbBook.l_segs (RbBook.b_log s))) /\ RbBook.proj r = x) /\
  ((RbBook.b_mem s = [] /\ RbBook.b_man s = (0, 0)%N) \/
   (fst (RbBook.b_man s) <> 0%N /\
    forall x, In x (RbBook.b_mem s) -> (fst (RbBook.b_man s) <= fst x <= snd (RbBook.b_man s))%N)) /\
  (exists s', RbBook.b_reopen RbBook.VCur s = RbBook.BOk s' /\ RbBook.b_mem s' = RbBook.b_mem s).
Proof. exact RbBook_proofs.rbbook_reachable. Qed.
Print Assumptions C09_rbbook_reachable.

(* a commit whose delta has left the log is in the log after no continuation of the history (record ids are
   reused after the log was emptied, so this is stated on the commits, [b_tag] = number of commits so far) *)
Theorem C09_rbbook_no_revival : forall maxlen segsz ops1 ops2, (1 <= maxlen)%nat ->
  forall s1 o1 s2 o2,
  RbBook.b_run RbBook.VCur (RbBook.b_init maxlen segsz) ops1 = (s1, o1) ->
  RbBook.b_run RbBook.VCur (RbBook.b_init maxlen segsz) (ops1 ++ ops2) = (s2, o2) ->
  forall t, (t < RbBook.b_tag s1)%N -> ~ In t (map snd (RbBook.b_mem s1)) -> ~ In t (map snd (RbBook.b_mem s2)).
Proof. exact RbBook_proofs.rbbook_no_revival. Qed.
Print Assumptions C09_rbbook_no_revival.

(* the lock-step checker that refutes the pre-fix variants accepts every history of the current code *)
Theorem C09_rbbook_conforms : forall maxlen segsz ops, (1 <= maxlen)%nat ->
  RbBook.conforms0 RbBook.VCur maxlen segsz ops = true.
Proof. exact RbBook_proofs.rbbook_conforms. Qed.
Print Assumptions C09_rbbook_conforms.

(* the three repaired defects: the code with ONE repair reverted is refuted by a shortest history
   (no shorter one over commits of 1 / 3 blocks, rollback 1 / 2 / 3, reopen; max_rollback_log_len 1..3;
   segments of one block, two blocks, never full) *)
Theorem C09_rbbook_preF7a_refuted :
  RbBook.conforms0 RbBook.VPreF7a 1 4096 RbBook_proofs.w_f7a = false /\
  snd (RbBook.b_run RbBook.VPreF7a (RbBook.b_init 1 4096) RbBook_proofs.w_f7a) =
    [RbBook.OOk; RbBook.OOk; RbBook.OFail RbBook.ETruncNotFound] /\
  RbBook.conforms0 RbBook.VCur 1 4096 RbBook_proofs.w_f7a = true /\
  RbBook_proofs.all_conform RbBook.VPreF7a 0 = true /\ RbBook_proofs.all_conform RbBook.VPreF7a 1 = true /\
  RbBook_proofs.all_conform RbBook.VPreF7a 2 = true.
Proof. exact RbBook_proofs.preF7a_refuted. Qed.
Print Assumptions C09_rbbook_preF7a_refuted.

Theorem C09_rbbook_preF7a_revives_pruned_record :
  snd (RbBook.b_run RbBook.VPreF7a (RbBook.b_init 1 1000000) RbBook_proofs.w_f7a_revive) =
    [RbBook.OOk; RbBook.OOk; RbBook.OOk; RbBook.OOk; RbBook.OOk] /\
  snd (RbBook.sp_run 1 ([], 0%N) RbBook_proofs.w_f7a_revive) =
    [RbBook.OOk; RbBook.OOk; RbBook.OOk; RbBook.OOk; RbBook.ORefused] /\
  snd (RbBook.b_run RbBook.VCur (RbBook.b_init 1 1000000) RbBook_proofs.w_f7a_revive) =
    [RbBook.OOk; RbBook.OOk; RbBook.OOk; RbBook.OOk; RbBook.ORefused].
Proof. exact RbBook_proofs.preF7a_revives_pruned_record. Qed.
Print Assumptions C09_rbbook_preF7a_revives_pruned_record.

Theorem C09_rbbook_preF7b_refuted :
  RbBook.conforms0 RbBook.VPreF7b 1 1000000 RbBook_proofs.w_f7b = false /\
  length (RbBook.b_mem (fst (RbBook.b_run RbBook.VPreF7b (RbBook.b_init 1 1000000) RbBook_proofs.w_f7b))) = 2 /\
  snd (RbBook.b_run RbBook.VPreF7b (RbBook.b_init 1 1000000) (RbBook_proofs.w_f7b ++ [RbBook.BRollback 2])) =
    [RbBook.OOk; RbBook.OOk; RbBook.OOk; RbBook.OOk] /\
  snd (RbBook.sp_run 1 ([], 0%N) (RbBook_proofs.w_f7b ++ [RbBook.BRollback 2])) =
    [RbBook.OOk; RbBook.OOk; RbBook.OOk; RbBook.ORefused] /\
  RbBook.conforms0 RbBook.VCur 1 1000000 (RbBook_proofs.w_f7b ++ [RbBook.BRollback 2]) = true /\
  RbBook_proofs.all_conform RbBook.VPreF7b 0 = true /\ RbBook_proofs.all_conform RbBook.VPreF7b 1 = true /\
  RbBook_proofs.all_conform RbBook.VPreF7b 2 = true.
Proof. exact RbBook_proofs.preF7b_refuted. Qed.
Print Assumptions C09_rbbook_preF7b_refuted.

Theorem C09_rbbook_preN8_refuted :
  RbBook.conforms0 RbBook.VPreN8 1 4096 RbBook_proofs.w_n8 = false /\
  snd (RbBook.b_run RbBook.VPreN8 (RbBook.b_init 1 4096) RbBook_proofs.w_n8) =
    [RbBook.OOk; RbBook.OOk; RbBook.OOk; RbBook.OFail RbBook.ETruncNotFound] /\
  RbBook.conforms0 RbBook.VCur 1 4096 RbBook_proofs.w_n8 = true /\
  RbBook_proofs.all_conform RbBook.VPreN8 0 = true /\ RbBook_proofs.all_conform RbBook.VPreN8 1 = true /\
  RbBook_proofs.all_conform RbBook.VPreN8 2 = true /\ RbBook_proofs.all_conform RbBook.VPreN8 3 = true.
Proof. exact RbBook_proofs.preN8_refuted. Qed.
Print Assumptions C09_rbbook_preN8_refuted.

(* the hypothesis 1 <= max_rollback_log_len is necessary: with 0 the sync of the first commit panics in prune_oldest *)
Theorem C09_rbbook_maxlen_zero_commit_fails :
  snd (RbBook.b_run RbBook.VCur (RbBook.b_init 0 4096) [RbBook.BCommit 1]) =
    [RbBook.OFail RbBook.EPruneOldestAboveEnd].
Proof. exact RbBook_proofs.maxlen_zero_commit_fails. Qed.
Print Assumptions C09_rbbook_maxlen_zero_commit_fails.

(* ------------------------------------------------------------------------------------------ *)
(* The prior value of a key written blind is fetched by the reverse-delta worker through the        *)
(* asynchronous overflow reader (AsyncRead.v: beatree/ops/overflow.rs AsyncReader under ARBITRARY    *)
(* schedules - requests are submitted in bursts, completions arrive in any order, page numbers      *)
(* beyond the 15 of the leaf cell are learnt only from pages parsed in order).  For every layout    *)
(* and every schedule the repaired reader never indexes a page number it does not know; on the      *)
(* layout chunk writes it is never stuck; whenever it is done it holds exactly the value and has     *)
(* requested exactly the value's pages in order.  The original submit panics on a schedule the      *)
(* worker produces (defect N3).                                                                     *)
From Nomt Require AsyncRead AsyncRead_proofs.

Theorem C09_async_prior_never_panics : forall L evs, AsyncRead.run true L evs <> None.
Proof. exact AsyncRead_proofs.guarded_never_panics. Qed.
Print Assumptions C09_async_prior_never_panics.

Theorem C09_async_prior_value : forall g L evs s,
  AsyncRead.run g L evs = Some s -> AsyncRead.done L s = true ->
  AsyncRead.val s = flat_map snd (AsyncRead.pgs L) /\
  AsyncRead.asked s = firstn (AsyncRead.total L) (AsyncRead.known L (AsyncRead.total L)).
Proof. exact AsyncRead_proofs.done_value. Qed.
Print Assumptions C09_async_prior_value.

Theorem C09_async_prior_progress : forall L evs s,
  AsyncRead.wf_layout L -> AsyncRead.run true L evs = Some s -> AsyncRead.done L s = false ->
  (exists i, i < AsyncRead.req s /\ AsyncRead.proc s <= i /\
             existsb (Nat.eqb i) (AsyncRead.got s) = false) \/
  (exists s', AsyncRead.submit true L s = AsyncRead.SOk s').
Proof. exact AsyncRead_proofs.progress. Qed.
Print Assumptions C09_async_prior_progress.

Theorem C09_chunk_layout_wf : forall m pns bytes, 0 < m -> length pns = length bytes ->
  AsyncRead.wf_layout (AsyncRead.chunk_layout m pns bytes).
Proof. exact AsyncRead_proofs.chunk_layout_wf. Qed.
Print Assumptions C09_chunk_layout_wf.

Theorem C09_async_prior_unguarded_refuted :
  AsyncRead.run false AsyncRead_proofs.ex_layout (repeat AsyncRead.ESubmit 16) = None /\
  option_map (fun s => (AsyncRead.done AsyncRead_proofs.ex_layout s, AsyncRead.val s, AsyncRead.asked s))
    (AsyncRead.run true AsyncRead_proofs.ex_layout
       (repeat AsyncRead.ESubmit 16 ++ map AsyncRead.EComplete (rev (seq 0 15)) ++
        [AsyncRead.ESubmit; AsyncRead.EComplete 15])) =
  Some (true, map N.of_nat (seq 0 16), AsyncRead_proofs.ex_pns).
Proof. exact AsyncRead_proofs.unguarded_refuted. Qed.
Print Assumptions C09_async_prior_unguarded_refuted.
