(* C09 - Rollback restores exactly the state n commits ago (abstract machine level). *)
From Nomt Require Import Base Store Base_proofs Store_proofs.

Theorem C09_rollback_undoes_commits : forall st h n limit,
  max_len st = Some limit -> n = length h -> 0 < n -> n <= limit ->
  exists st', rollback (run_commits st h) n = (st', ROk) /\ cur st' = cur st.
Proof. exact Store_proofs.rollback_undoes_commits. Qed.
Print Assumptions C09_rollback_undoes_commits.

Theorem C09_rollback_additive : forall st k m st1 st2 st3,
  k > 0 -> m > 0 ->
  rollback st k = (st1, ROk) -> rollback st1 m = (st2, ROk) -> rollback st (k + m) = (st3, ROk) ->
  cur st2 = cur st3 /\ hist st2 = hist st3.
Proof. exact Store_proofs.rollback_additive. Qed.
Print Assumptions C09_rollback_additive.

Theorem C09_rollback_additive_ok : forall st k m st1 st2,
  k > 0 -> m > 0 -> rollback st k = (st1, ROk) -> rollback st1 m = (st2, ROk) ->
  exists st3, rollback st (k + m) = (st3, ROk).
Proof. exact Store_proofs.rollback_additive_ok. Qed.
Print Assumptions C09_rollback_additive_ok.

(* a request that cannot be served fails without changing anything *)
Theorem C09_rollback_fail_noop : forall st n st', rollback st n = (st', RErr) -> st' = st.
Proof. exact Store_proofs.rollback_fail_noop. Qed.
Print Assumptions C09_rollback_fail_noop.

Theorem C09_log_bounded : forall n h s, length h <= n -> length (push_hist (Some n) h s) <= n.
Proof. exact Store_proofs.push_hist_bound. Qed.
Print Assumptions C09_log_bounded.
