(* C09 - Rollback restores exactly the state n commits ago (abstract machine level). *)
From Nomt Require Import Base Store Rollback Base_proofs Store_proofs Rollback_proofs.

Theorem C09_rollback_undoes_commits : forall st h n limit,
  max_len st = Some limit -> n = length h -> 0 < n -> n <= limit ->
  exists st', rollback (run_commits st h) n = (st', ROk) /\ cur st' = cur st.
Proof. exact Store_proofs.rollback_undoes_commits. Qed.
Print Assumptions C09_rollback_undoes_commits.

Theorem C09_rollback_additive : forall st k m st1 st2 st3,
  k > 0 -> m > 0 ->
  rollback st k = (st1, ROk) -> rollback st1 m = (st2, ROk) -> rollback st (k + m) = (st3, ROk) ->
  cur st2 = cur st3 /\ hist st2 = hist st3.
Proof. exact Store_proofs.rollback_additive. Qed.
Print Assumptions C09_rollback_additive.

Theorem C09_rollback_additive_ok : forall st k m st1 st2,
  k > 0 -> m > 0 -> rollback st k = (st1, ROk) -> rollback st1 m = (st2, ROk) ->
  exists st3, rollback st (k + m) = (st3, ROk).
Proof. exact Store_proofs.rollback_additive_ok. Qed.
Print Assumptions C09_rollback_additive_ok.

(* a request that cannot be served fails without changing anything *)
Theorem C09_rollback_fail_noop : forall st n st', rollback st n = (st', RErr) -> st' = st.
Proof. exact Store_proofs.rollback_fail_noop. Qed.
Print Assumptions C09_rollback_fail_noop.

Theorem C09_log_bounded : forall n h s, length h <= n -> length (push_hist (Some n) h s) <= n.
Proof. exact Store_proofs.push_hist_bound. Qed.
Print Assumptions C09_log_bounded.

(* The reverse-delta log of nomt/src/rollback (mirrored in Rollback.v: priors recorded per commit,
   truncate merging the n newest deltas so that the OLDEST prior wins) refines the snapshot
   semantics above: applying the traceback to the current state yields exactly the state n
   commits ago, for every history of batches and every n. *)
Theorem C09_rollback_refines_snapshots : forall (batches : list (list change)) S0 n,
  kv_sorted S0 = true -> n <= length batches ->
  let '(Sfinal, ds) := run_log S0 batches [] in
  rollback_apply Sfinal ds n = fst (run_log S0 (firstn (length batches - n) batches) []).
Proof. exact Rollback_proofs.rollback_refines_snapshots. Qed.
Print Assumptions C09_rollback_refines_snapshots.

Theorem C09_rollback_log_additive : forall (batches : list (list change)) S0 k m,
  kv_sorted S0 = true -> k + m <= length batches ->
  let '(Sfinal, ds) := run_log S0 batches [] in
  rollback_apply (rollback_apply Sfinal ds k) (skipn k ds) m = rollback_apply Sfinal ds (k + m).
Proof. exact Rollback_proofs.rollback_log_additive. Qed.
Print Assumptions C09_rollback_log_additive.
