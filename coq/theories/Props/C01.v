(* C01 - Committed key-value state equals the sequential model.  Only statements and
   `exact`; proofs live in Store_proofs.v / Base_proofs.v. *)
From Nomt Require Import Base Store Result Overflow BitOps Base_proofs Store_proofs Overflow_proofs BitOps_proofs.

(* every key reads the last committed write to it (absent if never written or last deleted),
   for every history of commits, every key and every value *)
Theorem C01_last_write : forall ml h k,
  get (cur (run_commits (init ml) h)) k =
  match last_write (concat (map (fun e => writes_of (snd e)) h)) k with
  | Some w => w
  | None => None
  end.
Proof. exact Store_proofs.C01_last_write. Qed.
Print Assumptions C01_last_write.

(* a deleted key is indistinguishable from one that never existed: the states are equal *)
Theorem C01_delete_is_absence : forall S k v,
  get S k = None -> apply S [(k, Some v); (k, None)] = S.
Proof. exact Store_proofs.C01_delete_is_absence. Qed.
Print Assumptions C01_delete_is_absence.

(* one commit applies exactly the writes of its batch *)
Theorem C01_commit_applies_batch : forall st id batch,
  cur (commit_batch st id batch) = apply (cur st) (writes_of batch).
Proof. exact Store_proofs.commit_batch_cur. Qed.
Print Assumptions C01_commit_applies_batch.

(* non-vacuity: a concrete history with an overwrite and a delete *)
Example C01_example :
  let k1 := [true; false] in let k2 := [false; true] in
  let h := [(1%N, [(k1, Some (Some 5%N)); (k2, Some (Some 6%N))]);
            (2%N, [(k1, Some (Some 7%N)); (k2, Some None)])] in
  get (cur (run_commits (init None) h)) k1 = Some 7%N /\
  get (cur (run_commits (init None) h)) k2 = None.
Proof. vm_compute. split; reflexivity. Qed.

(* ---- value forms: the page count computed for a multi-page value (mirror of
   beatree/ops/overflow.rs::total_needed_pages, compared with the real function for every size in
   [1333, 300000] and sampled sizes up to 2^29) always suffices for the value bytes plus the
   out-of-cell page pointers, and wastes at most one page ---- *)
Theorem C01_overflow_pages_fit : forall v,
  let p := total_needed_pages v in
  (v + 4 * (p - 15) <= p * 4092)%N.
Proof. exact Overflow_proofs.total_needed_pages_fits. Qed.
Print Assumptions C01_overflow_pages_fit.

Theorem C01_overflow_pages_nearly_least : forall v,
  let p := total_needed_pages v in
  forall q, (q + 1 < p)%N -> ~ (v + 4 * (q - 15) <= q * 4092)%N.
Proof. exact Overflow_proofs.total_needed_pages_least_partial. Qed.
Print Assumptions C01_overflow_pages_nearly_least.

(* ---- separators between leaves / branches (mirror of beatree/ops/bit_ops.rs::separate,
   compared with the real function on generated key pairs): strictly above the left key, not
   above the right key, and the shortest such bit string ---- *)
Theorem C01_separate_spec : forall a b,
  length a = KEY_BITS -> length b = KEY_BITS -> key_ltb a b = true ->
  exists sep,
    separate a b = Ok sep /\
    length sep = KEY_BITS /\
    key_ltb a sep = true /\
    negb (key_ltb b sep) = true /\
    sep = firstn (prefix_len a b + 1)%nat b ++ repeat false (KEY_BITS - (prefix_len a b + 1))%nat /\
    separator_len sep = (prefix_len a b + 1)%nat /\
    (forall s, length s = KEY_BITS -> key_ltb a s = true -> negb (key_ltb b s) = true ->
               (separator_len sep <= separator_len s)%nat).
Proof. exact BitOps_proofs.separate_spec. Qed.
Print Assumptions C01_separate_spec.
