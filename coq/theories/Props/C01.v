(* C01 - Committed key-value state equals the sequential model.  Only statements and
   `exact`; proofs live in Store_proofs.v / Base_proofs.v. *)
From Nomt Require Import Base Store Result Overflow BitOps Base_proofs Store_proofs Overflow_proofs BitOps_proofs.

(* every key reads the last committed write to it (absent if never written or last deleted),
   for every history of commits, every key and every value *)
Theorem C01_last_write : forall ml h k,
  get (cur (run_commits (init ml) h)) k =
  match last_write (concat (map (fun e => writes_of (snd e)) h)) k with
  | Some w => w
  | None => None
  end.
Proof. exact Store_proofs.C01_last_write. Qed.
Print Assumptions C01_last_write.

(* a deleted key is indistinguishable from one that never existed: the states are equal *)
Theorem C01_delete_is_absence : forall S k v,
  get S k = None -> apply S [(k, Some v); (k, None)] = S.
Proof. exact Store_proofs.C01_delete_is_absence. Qed.
Print Assumptions C01_delete_is_absence.

(* one commit applies exactly the writes of its batch *)
Theorem C01_commit_applies_batch : forall st id batch,
  cur (commit_batch st id batch) = apply (cur st) (writes_of batch).
Proof. exact Store_proofs.commit_batch_cur. Qed.
Print Assumptions C01_commit_applies_batch.

(* non-vacuity: a concrete history with an overwrite and a delete *)
Example C01_example :
  let k1 := [true; false] in let k2 := [false; true] in
  let h := [(1%N, [(k1, Some (Some 5%N)); (k2, Some (Some 6%N))]);
            (2%N, [(k1, Some (Some 7%N)); (k2, Some None)])] in
  get (cur (run_commits (init None) h)) k1 = Some 7%N /\
  get (cur (run_commits (init None) h)) k2 = None.
Proof. vm_compute. split; reflexivity. Qed.

(* ---- value forms: the page count computed for a multi-page value (mirror of
   beatree/ops/overflow.rs::total_needed_pages, compared with the real function for every size in
   [1333, 300000] and sampled sizes up to 2^29) always suffices for the value bytes plus the
   out-of-cell page pointers, and wastes at most one page ---- *)
Theorem C01_overflow_pages_fit : forall v,
  let p := total_needed_pages v in
  (v + 4 * (p - 15) <= p * 4092)%N.
Proof. exact Overflow_proofs.total_needed_pages_fits. Qed.
Print Assumptions C01_overflow_pages_fit.

Theorem C01_overflow_pages_nearly_least : forall v,
  let p := total_needed_pages v in
  forall q, (q + 1 < p)%N -> ~ (v + 4 * (q - 15) <= q * 4092)%N.
Proof. exact Overflow_proofs.total_needed_pages_least_partial. Qed.
Print Assumptions C01_overflow_pages_nearly_least.

(* ---- separators between leaves / branches (mirror of beatree/ops/bit_ops.rs::separate,
   compared with the real function on generated key pairs): strictly above the left key, not
   above the right key, and the shortest such bit string ---- *)
Theorem C01_separate_spec : forall a b,
  length a = KEY_BITS -> length b = KEY_BITS -> key_ltb a b = true ->
  exists sep,
    separate a b = Ok sep /\
    length sep = KEY_BITS /\
    key_ltb a sep = true /\
    negb (key_ltb b sep) = true /\
    sep = firstn (prefix_len a b + 1)%nat b ++ repeat false (KEY_BITS - (prefix_len a b + 1))%nat /\
    separator_len sep = (prefix_len a b + 1)%nat /\
    (forall s, length s = KEY_BITS -> key_ltb a s = true -> negb (key_ltb b s) = true ->
               (separator_len sep <= separator_len s)%nat).
Proof. exact BitOps_proofs.separate_spec. Qed.
Print Assumptions C01_separate_spec.

(* ---- rebuilding branch nodes (mirror BranchBuild.v of BranchGauge / BranchOpsTracker / BranchUpdater /
   BranchNodeBuilder, compared with the real updater by the engine `nv bb`): for every base node of
   the shape node_wf, every tracker content a digest can leave behind and every ascending sequence of
   ingested separators, every node the updater builds has exactly the body size its gauge computed,
   fits into the page (the separator bits end before the node pointers), and is node_wf again with
   canonical stored lengths ---- *)
From Nomt Require Import Image BranchBuild BranchBuild_proofs.

Theorem C01_branch_gauge_exact : forall u sg nodes u' nm,
  carry (u_t u) -> stage_ok (u_t u) sg -> run_stage true u sg = Some (nodes, u', nm) ->
  forall m, In m nodes -> bo_gauge_body m = node_body (bo_node m).
Proof. exact BranchBuild_proofs.gauge_exact. Qed.
Print Assumptions C01_branch_gauge_exact.

Theorem C01_branch_built_node_fits : forall u sg nodes u' nm,
  carry (u_t u) -> stage_ok (u_t u) sg -> run_stage true u sg = Some (nodes, u', nm) ->
  forall m, In m nodes ->
    (node_body (bo_node m) <= BODY
     /\ BRANCH_HEADER + 2 * N.of_nat (bn_n (bo_node m))
        + (bn_plen (bo_node m) + sumN (map it_len (bn_items (bo_node m))) + 7) / 8
        <= PAGE - 4 * N.of_nat (bn_n (bo_node m)))%N.
Proof. exact BranchBuild_proofs.built_node_fits. Qed.
Print Assumptions C01_branch_built_node_fits.

Theorem C01_branch_built_node_canonical : forall u sg nodes u' nm,
  carry (u_t u) -> stage_ok (u_t u) sg -> run_stage true u sg = Some (nodes, u', nm) ->
  (forall m, In m nodes -> node_wf (bo_node m) = true /\ canonical (bo_node m) = true
                           /\ bo_n m = bn_n (bo_node m) /\ bo_pushed m = bn_n (bo_node m))
  /\ carry (u_t u').
Proof. exact BranchBuild_proofs.built_node_canonical. Qed.
Print Assumptions C01_branch_built_node_canonical.

(* the code before the repair of defect N12 violates the first and the third statement on a stage
   that satisfies their hypotheses (gauge 30 bytes, node 33 bytes) *)
Theorem C01_branch_gauge_exact_refuted_before_fix :
  carry t0 /\ stage_ok t0 rf_stage
  /\ exists m u' nm,
       run_stage false u0 rf_stage = Some ([m], u', nm)
       /\ bo_gauge_body m = 30%N /\ node_body (bo_node m) = 33%N
       /\ map it_len (bn_items (bo_node m)) = [20; 23; 22; 2]%N
       /\ canonical (bo_node m) = false.
Proof. exact BranchBuild_proofs.gauge_exact_refuted. Qed.
Print Assumptions C01_branch_gauge_exact_refuted_before_fix.

(* ---- rebuilding leaf nodes (mirror LeafBuild.v of LeafGauge / LeafOp / LeafUpdater / LeafBuilder,
   compared with the real updater by the engine `nv lb`, sig c01-lb-model): for every well-formed
   sequence of stages (LeafBuild.stages_wf: bases and operations ascending, 256-bit keys, cell sizes
   within the in-leaf limit, every base's separator not above the stage's keys and above the keys
   before) and every run of the mirror over it (reset_base / remove_cutoff, ingest.., digest per
   stage): content, sizes, half-full, separators ---- *)
From Nomt Require LeafBuild LeafBuild_proofs.

Theorem C01_leaf_leaves_content : forall sgs res u',
  LeafBuild.stages_wf sgs = true -> LeafBuild.run_stages false LeafBuild.u0 sgs = Some (res, u') ->
  sorted_keys (map LeafBuild.c_key (LeafBuild_proofs.run_cells res u')) = true
  /\ forall c, In c (LeafBuild_proofs.run_cells res u') <->
       In (LeafBuild.c_key c, Some (LeafBuild.c_size c, LeafBuild.c_id c)) (LeafBuild.all_ops sgs)
       \/ (In c (LeafBuild.all_base sgs) /\ forall v, ~ In (LeafBuild.c_key c, v) (LeafBuild.all_ops sgs)).
Proof. exact LeafBuild_proofs.leaves_content. Qed.
Print Assumptions C01_leaf_leaves_content.

Theorem C01_leaf_leaves_fit : forall sgs res u',
  LeafBuild.stages_wf sgs = true -> LeafBuild.run_stages false LeafBuild.u0 sgs = Some (res, u') ->
  forall m, In m (LeafBuild.all_built res) ->
    LeafBuild.bl_cells m <> []
    /\ (LeafBuild.body_of (LeafBuild.bl_cells m) <= LeafBuild.BODY)%N
    /\ LeafBuild.bl_gauge m = LeafBuild.body_of (LeafBuild.bl_cells m)
    /\ LeafBuild.bl_n m = length (LeafBuild.bl_cells m)
    /\ LeafBuild.bl_vs m = LeafBuild.sizes (LeafBuild.bl_cells m).
Proof. exact LeafBuild_proofs.leaves_fit. Qed.
Print Assumptions C01_leaf_leaves_fit.

Theorem C01_leaf_leaves_not_underfull : forall sgs res u',
  LeafBuild.stages_wf sgs = true -> LeafBuild.run_stages false LeafBuild.u0 sgs = Some (res, u') ->
  Forall2 (fun sg r =>
             forall pre m post, LeafBuild.sr_built r = pre ++ m :: post ->
               (LeafBuild.MERGE <= LeafBuild.body_of (LeafBuild.bl_cells m))%N
               \/ (post = [] /\ LeafBuild_proofs.eff_cutoff sg = None /\ LeafBuild.sr_merge r = None)) sgs res.
Proof. exact LeafBuild_proofs.leaves_not_underfull. Qed.
Print Assumptions C01_leaf_leaves_not_underfull.

Theorem C01_leaf_separators_ok : forall sgs res u',
  LeafBuild.stages_wf sgs = true -> LeafBuild.run_stages false LeafBuild.u0 sgs = Some (res, u') ->
  (forall pre m post, LeafBuild.all_built res = pre ++ m :: post ->
     (forall c, In c (LeafBuild.bl_cells m) -> LeafBuild.key_leb (LeafBuild.bl_sep m) (LeafBuild.c_key c) = true)
     /\ (forall c, In c (LeafBuild_proofs.cells_of pre) -> key_ltb (LeafBuild.c_key c) (LeafBuild.bl_sep m) = true))
  /\ (LeafBuild.pending u' <> [] ->
      exists s, LeafBuild.u_sepov u' = Some s
        /\ (forall c, In c (LeafBuild.pending u') -> LeafBuild.key_leb s (LeafBuild.c_key c) = true)
        /\ (forall c, In c (LeafBuild_proofs.cells_of (LeafBuild.all_built res)) -> key_ltb (LeafBuild.c_key c) s = true)).
Proof. exact LeafBuild_proofs.separators_ok. Qed.
Print Assumptions C01_leaf_separators_ok.

(* the first leaf a digest hands over carries the separator the updater held when the digest began; the
   first leaf of the tree the all-zero separator *)
Theorem C01_leaf_first_separator : forall bug u leaves u' nm,
  LeafBuild.digest bug u = Some (leaves, u', nm) ->
  match leaves with
  | m :: _ => LeafBuild.bl_sep m = LeafBuild.separator_of (LeafBuild.u_sepov u) (LeafBuild.u_base u)
  | [] => True
  end.
Proof. exact LeafBuild_proofs.digest_first_separator. Qed.
Print Assumptions C01_leaf_first_separator.

Theorem C01_leaf_first_leaf_zero_separator : forall ops cutoff m rest u' nm,
  LeafBuild.run_stage false LeafBuild.u0 (LeafBuild.mkStage None false ops cutoff) = Some (m :: rest, u', nm) ->
  LeafBuild.bl_sep m = LeafBuild.zero_key.
Proof. exact LeafBuild_proofs.first_leaf_zero_separator. Qed.
Print Assumptions C01_leaf_first_leaf_zero_separator.

(* the second statement has teeth: an off-by-one of the split point (the overfull test looks at the
   gauge before the item is added) overfills a leaf on a stage that satisfies the hypotheses *)
Theorem C01_leaf_leaves_fit_refuted_with_split_off_by_one :
  LeafBuild.stages_wf [LeafBuild_proofs.rf_stage] = true
  /\ exists res u' m,
       LeafBuild.run_stages true LeafBuild.u0 [LeafBuild_proofs.rf_stage] = Some (res, u')
       /\ In m (LeafBuild.all_built res)
       /\ map LeafBuild.c_id (LeafBuild.bl_cells m) = [1; 2; 3; 4]%N /\ LeafBuild.bl_gauge m = 4336%N
       /\ LeafBuild.body_of (LeafBuild.bl_cells m) = 4336%N
       /\ (LeafBuild.BODY < LeafBuild.body_of (LeafBuild.bl_cells m))%N.
Proof. exact LeafBuild_proofs.leaves_fit_refuted. Qed.
Print Assumptions C01_leaf_leaves_fit_refuted_with_split_off_by_one.

(* and the run exists: on a well-formed sequence of stages the mirror's updater and builder do not
   panic (no failed assertion, unwrap of None, slice out of bounds, underflow, separate() of equal
   keys) and its loops end, so the four statements above are about a run that is there *)
Theorem C01_leaf_run_total : forall sgs,
  LeafBuild.stages_wf sgs = true ->
  exists res u', LeafBuild.run_stages false LeafBuild.u0 sgs = Some (res, u').
Proof. exact LeafBuild_proofs.run_total. Qed.
Print Assumptions C01_leaf_run_total.

(* a leaf within the body size is a leaf the page encoder accepts (NodeCodec.leaf_fits: the asserts of
   LeafNode::cell_pointers / LeafBuilder), whatever entries carry its cells *)
Theorem C01_leaf_built_leaf_fits_page : forall (cells : list LeafBuild.cell) (es : list Image.entry),
  map (fun e => Image.lenN (NodeCodec.cell_of e)) es = map LeafBuild.c_size cells ->
  (LeafBuild.body_of cells <= LeafBuild.BODY)%N ->
  NodeCodec.leaf_fits es = true.
Proof. exact LeafBuild_proofs.built_leaf_fits_page. Qed.
Print Assumptions C01_leaf_built_leaf_fits_page.
