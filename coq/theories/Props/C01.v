(* C01 - Committed key-value state equals the sequential model.  Only statements and
   `exact`; proofs live in Store_proofs.v / Base_proofs.v. *)
From Nomt Require Import Base Store Base_proofs Store_proofs.

(* every key reads the last committed write to it (absent if never written or last deleted),
   for every history of commits, every key and every value *)
Theorem C01_last_write : forall ml h k,
  get (cur (run_commits (init ml) h)) k =
  match last_write (concat (map (fun e => writes_of (snd e)) h)) k with
  | Some w => w
  | None => None
  end.
Proof. exact Store_proofs.C01_last_write. Qed.
Print Assumptions C01_last_write.

(* a deleted key is indistinguishable from one that never existed: the states are equal *)
Theorem C01_delete_is_absence : forall S k v,
  get S k = None -> apply S [(k, Some v); (k, None)] = S.
Proof. exact Store_proofs.C01_delete_is_absence. Qed.
Print Assumptions C01_delete_is_absence.

(* one commit applies exactly the writes of its batch *)
Theorem C01_commit_applies_batch : forall st id batch,
  cur (commit_batch st id batch) = apply (cur st) (writes_of batch).
Proof. exact Store_proofs.commit_batch_cur. Qed.
Print Assumptions C01_commit_applies_batch.

(* non-vacuity: a concrete history with an overwrite and a delete *)
Example C01_example :
  let k1 := [true; false] in let k2 := [false; true] in
  let h := [(1%N, [(k1, Some (Some 5%N)); (k2, Some (Some 6%N))]);
            (2%N, [(k1, Some (Some 7%N)); (k2, Some None)])] in
  get (cur (run_commits (init None) h)) k1 = Some 7%N /\
  get (cur (run_commits (init None) h)) k2 = None.
Proof. vm_compute. split; reflexivity. Qed.
