(* C08 - Proof verification never accepts a false statement (path proofs; multi-proofs follow). *)
From Nomt Require Import Base Hash Trie Result PathProof Base_proofs Trie_proofs PathProof_proofs.

(* For an ARBITRARY proof object p and key path kp: if it verifies against the root of S then
   every statement it confirms is true of S.  Assumes only that the hasher is collision free and
   labels node kinds correctly. *)
Theorem C08_path_sound : forall (H : Hasher), HasherOK H -> HasherCF H ->
  forall n S (p : path_proof H) kp vp, wf n S ->
  verify H p kp (root_n H n S) = Ok vp ->
  forall k, length k = n ->
    (forall v, confirm_value H vp k v = Ok true -> get S k = Some v) /\
    (forall v, confirm_value H vp k v = Ok false -> get S k <> Some v) /\
    (confirm_nonexistence H vp k = Ok true -> get S k = None) /\
    (confirm_nonexistence H vp k = Ok false -> get S k <> None).
Proof. exact PathProof_proofs.path_sound. Qed.
Print Assumptions C08_path_sound.

(* the hypotheses are satisfiable: the free term algebra is such a hasher *)
Example C08_hasher_exists : HasherOK FreeH /\ HasherCF FreeH.
Proof. exact (conj FreeH_OK FreeH_CF). Qed.
