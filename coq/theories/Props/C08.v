(* C08 - Proof verification never accepts a false statement (path proofs and multi-proofs). *)
From Coq Require Import List.
From Nomt Require Import Base Hash Trie Result PathProof BuildTrie MultiProof MultiUpdate
     Base_proofs Trie_proofs PathProof_proofs MultiProof_proofs.

(* For an ARBITRARY proof object p and key path kp: if it verifies against the root of S then
   every statement it confirms is true of S.  Assumes only that the hasher is collision free and
   labels node kinds correctly. *)
Theorem C08_path_sound : forall (H : Hasher), HasherOK H -> HasherCF H ->
  forall n S (p : path_proof H) kp vp, wf n S ->
  PathProof.verify H p kp (root_n H n S) = Ok vp ->
  forall k, length k = n ->
    (forall v, PathProof.confirm_value H vp k v = Ok true -> get S k = Some v) /\
    (forall v, PathProof.confirm_value H vp k v = Ok false -> get S k <> Some v) /\
    (PathProof.confirm_nonexistence H vp k = Ok true -> get S k = None) /\
    (PathProof.confirm_nonexistence H vp k = Ok false -> get S k <> None).
Proof. exact PathProof_proofs.path_sound. Qed.
Print Assumptions C08_path_sound.

(* The same for an ARBITRARY multi-proof object: if it verifies against the root of S, every
   terminal it carries is a real terminal of the trie of S at the claimed depth ... *)
Theorem C08_multi_sound_terminals : forall (H : Hasher), HasherOK H -> HasherCF H ->
  forall n S (mp : multi_proof H) v,
  MultiProof.verify H mp (root_n H n S) = Ok v ->
  forall t, In t (vmp_inner v) ->
    descend (mk n 0 S) (firstn (vm_depth t) (vpath t)) = Some (terminal_trie (vm_terminal t)) /\
    In (firstn (vm_depth t) (vpath t), as_leaf_option (vm_terminal t)) (terminals (mk n 0 S) []).
Proof. exact MultiProof_proofs.multi_sound_terminals. Qed.
Print Assumptions C08_multi_sound_terminals.

(* ... and every statement it confirms is true of S *)
Theorem C08_multi_sound : forall (H : Hasher), HasherOK H -> HasherCF H ->
  forall n S (mp : multi_proof H) v, wf n S ->
  MultiProof.verify H mp (root_n H n S) = Ok v ->
  forall k, length k = n ->
    (forall x, MultiProof.confirm_value H v (k, x) = Ok true -> get S k = Some x) /\
    (forall x, MultiProof.confirm_value H v (k, x) = Ok false -> get S k <> Some x) /\
    (MultiProof.confirm_nonexistence H v k = Ok true -> get S k = None) /\
    (MultiProof.confirm_nonexistence H v k = Ok false -> get S k <> None).
Proof. exact MultiProof_proofs.multi_sound. Qed.
Print Assumptions C08_multi_sound.

(* the hypotheses are satisfiable: the free term algebra is such a hasher *)
Example C08_hasher_exists : HasherOK FreeH /\ HasherCF FreeH.
Proof. exact (conj FreeH_OK FreeH_CF). Qed.
