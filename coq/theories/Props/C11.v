(* C11 - Overlays behave exactly like the commits they stand for (abstract machine level). *)
From Nomt Require Import Base Store Result Overlay Base_proofs Store_proofs Overlay_proofs.

(* a session on a chain sees the committed state with the chain's changes applied oldest first *)
Theorem C11_view : forall st o m, view st (o :: m) = apply (view st m) (changes_of st o).
Proof. exact Store_proofs.view_cons. Qed.
Print Assumptions C11_view.

Theorem C11_fork_no_effect : forall st id m b,
  cur (finish st id m b) = cur st /\ hist (finish st id m b) = hist st /\
  cur (drop st id) = cur st /\ hist (drop st id) = hist st /\
  cur (into_overlay st id) = cur st /\ hist (into_overlay st id) = hist st.
Proof. exact Store_proofs.fork_no_effect. Qed.
Print Assumptions C11_fork_no_effect.

Theorem C11_chain_commit_equiv : forall st b1 b2,
  (forall j, find (csets st) j = None) -> marker st = None ->
  let s1 := into_overlay (finish st 1%N [] b1) 1%N in
  let s2 := into_overlay (finish s1 2%N [1%N] b2) 2%N in
  let '(s3, r1) := commit s2 1%N false in
  let '(s4, r2) := commit s3 2%N false in
  r1 = COk /\ r2 = COk /\
  cur s4 = cur (commit_batch (commit_batch st 1%N b1) 2%N b2) /\
  hist s4 = hist (commit_batch (commit_batch st 1%N b1) 2%N b2).
Proof. exact Store_proofs.chain_commit_equiv. Qed.
Print Assumptions C11_chain_commit_equiv.

Theorem C11_parent_refused : forall st id c p,
  find (csets st) id = Some c -> c_overlay c = true -> c_parent c = Some p -> marker st <> Some p ->
  snd (commit st id false) = CParent /\ cur (fst (commit st id false)) = cur st.
Proof. exact Store_proofs.overlay_parent_refused. Qed.
Print Assumptions C11_parent_refused.

(* The overlay index of nomt/src/overlay.rs (mirrored in Overlay.v: Index with prune_below /
   insert_values, LiveOverlay::new with its zip over the recorded ancestors, value with the
   seqn arithmetic, finish) implements exactly the specification used above: a chain the
   specification validates is accepted, and every read through it returns the specification's
   view - for every reachable overlay store, with ancestors dropped or committed meanwhile. *)
Theorem C11_overlay_index_implements_view : forall os st chain m,
  reach os -> mirrors os st -> check_chain st chain = ChainOk m ->
  exists lo, lo_new os chain = Ok lo /\
    forall k, apply_view os (cur st) lo k = Ok (get (view st m) k).
Proof. exact Overlay_proofs.overlay_view_Store. Qed.
Print Assumptions C11_overlay_index_implements_view.

(* ... and it refuses exactly the chains the specification refuses, never panicking *)
Theorem C11_overlay_refusals : forall os st chain,
  reach os -> mirrors os st ->
  (forall m, check_chain st chain = ChainOk m <->
             exists lo, lo_new os chain = Ok lo /\ lo_chain lo = m) /\
  (check_chain st chain = NotAncestor <-> lo_new os chain = Err IANotAncestor) /\
  (check_chain st chain = Incomplete <-> lo_new os chain = Err IAIncomplete) /\
  lo_new os chain <> Panic.
Proof. exact Overlay_proofs.new_refusals. Qed.
Print Assumptions C11_overlay_refusals.
