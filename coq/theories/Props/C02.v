(* C02 - The root is the canonical commitment of the key-value set. *)
From Nomt Require Import Base Hash Trie Result BuildTrie Base_proofs Trie_proofs BuildTrie_proofs Extra_proofs.

(* the trie built by the specification obeys the rules of the NOMT specification ... *)
Theorem C02_root_canonical : forall n S, wf n S -> canon 0 S (mk n 0 S).
Proof. exact Trie_proofs.root_canonical. Qed.
Print Assumptions C02_root_canonical.

(* ... and it is the only trie that does *)
Theorem C02_canonical_unique : forall d S t t', canon d S t -> canon d S t' -> t = t'.
Proof. exact Trie_proofs.canon_unique. Qed.
Print Assumptions C02_canonical_unique.

(* the root is a function of the key/value SET alone, whatever history produced the store *)
Theorem C02_history_independent : forall (H : Hasher) n S S',
  NoDup (map fst S) -> NoDup (map fst S') -> (forall k, get S k = get S' k) ->
  root_n H n S = root_n H n S'.
Proof. exact Trie_proofs.root_history_independent. Qed.
Print Assumptions C02_history_independent.

Theorem C02_empty : forall (H : Hasher) n, root_n H n [] = TERM H.
Proof. exact Extra_proofs.root_empty. Qed.
Print Assumptions C02_empty.

Theorem C02_single : forall (H : Hasher) n k v, root_n H n [(k, v)] = hleaf H k v.
Proof. exact Extra_proofs.root_single. Qed.
Print Assumptions C02_single.

(* the stack-based builder of nomt-core (mirrored in BuildTrie.v) computes exactly this root,
   for every key length, every skip and every number of keys; in particular it never panics *)
Theorem C02_build_trie_spec : forall (H : Hasher) (n skip : nat) (ops : list (key * value)),
  skip <= n ->
  sorted_keys (map fst ops) = true ->
  (forall k v, In (k, v) ops -> length k = n) ->
  agree skip ops ->
  build_trie H n skip ops = Ok (hash H (mk (n - skip) skip ops)).
Proof. exact BuildTrie_proofs.build_trie_spec. Qed.
Print Assumptions C02_build_trie_spec.

Example C02_example :
  let k (l : list nat) : key := map (fun x => Nat.eqb x 1) l in
  let ops := [(k [0;0;0;1], 1%N); (k [0;0;1;0], 2%N); (k [0;1;0;0], 3%N); (k [1;0;1;0], 4%N); (k [1;0;1;1], 5%N)] in
  build_trie FreeH 4 0 ops = Ok (root_n FreeH 4 ops) /\ kind FreeH (root_n FreeH 4 ops) = KInt.
Proof. vm_compute. split; reflexivity. Qed.
