(* C05 - Every key has a verifying, truthful path proof. *)
From Nomt Require Import Base Hash Trie Result PathProof Base_proofs Trie_proofs PathProof_proofs.

Theorem C05_complete : forall (H : Hasher), HasherOK H ->
  forall n S k, n <= 256 -> wf n S -> length k = n ->
  let p := canonical_proof H n S k in
  exists vp, verify H p k (root_n H n S) = Ok vp /\
    (forall v, get S k = Some v ->
       confirm_value H vp k v = Ok true /\ confirm_nonexistence H vp k = Ok false) /\
    (get S k = None -> confirm_nonexistence H vp k = Ok true) /\
    length (pp_siblings p) <= n.
Proof. exact PathProof_proofs.C05_complete. Qed.
Print Assumptions C05_complete.

(* a proof that verifies for a key IS the canonical one: this is what makes comparing the
   implementation's proofs for equality with the model's legitimate *)
Theorem C05_proof_unique : forall (H : Hasher), HasherOK H -> HasherCF H ->
  forall n S (p : path_proof H) k vp, wf n S -> length k = n ->
  verify H p k (root_n H n S) = Ok vp ->
  pp_siblings p = pp_siblings (canonical_proof H n S k) /\
  match pp_terminal p, pp_terminal (canonical_proof H n S k) with
  | TLeaf a b, TLeaf a' b' => a = a' /\ b = b'
  | TTerm _, TTerm _ => True
  | _, _ => False
  end.
Proof. exact PathProof_proofs.path_proof_unique. Qed.
Print Assumptions C05_proof_unique.

Example C05_hasher_exists : HasherOK FreeH /\ HasherCF FreeH.
Proof. exact (conj FreeH_OK FreeH_CF). Qed.
