(* C05 - Every key has a verifying, truthful path proof. *)
From Nomt Require Import Base Hash Trie Result PathProof Base_proofs Trie_proofs PathProof_proofs.

Theorem C05_complete : forall (H : Hasher), HasherOK H ->
  forall n S k, n <= 256 -> wf n S -> length k = n ->
  let p := canonical_proof H n S k in
  exists vp, verify H p k (root_n H n S) = Ok vp /\
    (forall v, get S k = Some v ->
       confirm_value H vp k v = Ok true /\ confirm_nonexistence H vp k = Ok false) /\
    (get S k = None -> confirm_nonexistence H vp k = Ok true) /\
    length (pp_siblings p) <= n.
Proof. exact PathProof_proofs.C05_complete. Qed.
Print Assumptions C05_complete.

(* a proof that verifies for a key IS the canonical one: this is what makes comparing the
   implementation's proofs for equality with the model's legitimate *)
Theorem C05_proof_unique : forall (H : Hasher), HasherOK H -> HasherCF H ->
  forall n S (p : path_proof H) k vp, wf n S -> length k = n ->
  verify H p k (root_n H n S) = Ok vp ->
  pp_siblings p = pp_siblings (canonical_proof H n S k) /\
  match pp_terminal p, pp_terminal (canonical_proof H n S k) with
  | TLeaf a b, TLeaf a' b' => a = a' /\ b = b'
  | TTerm _, TTerm _ => True
  | _, _ => False
  end.
Proof. exact PathProof_proofs.path_proof_unique. Qed.
Print Assumptions C05_proof_unique.

Example C05_hasher_exists : HasherOK FreeH /\ HasherCF FreeH.
Proof. exact (conj FreeH_OK FreeH_CF). Qed.

(* ------------------------------------------------------------------------------------------ *)
(* the merkle read path: SeekPath.v mirrors what Session::prove does (merkle/seek.rs Seeker /
   SeekRequest::continue_seek: node kinds by MSB, six bits per page, sibling collection, the
   elided-children bit, the rebuild of the pages below an elided position from the beatree's
   leaves, compute_root_node) over the merkle pages and key/value pairs decoded by Image.v.  This
   closes the note "seek / page loading are not modelled": on every image whose wf_merkle verdict
   passes, the mirror's output IS the canonical proof, stored pages and elided pages alike.      *)
From Nomt Require Import Emit Image SeekPath SeekPath_proofs.

(* [enc] is the 32-byte form of the hasher's nodes; the oracle hypotheses: hash_of (aid t) is the
   encoded hash of every reference node (oracle_ok), the terminator is 32 zero bytes, and the MSB
   labelling read by the code (node_kind) is the hasher's kind labelling *)
Theorem C05_seek_refines : forall (H : Hasher) (enc : node H -> list N) hash_of img,
    HasherOK H -> enc (TERM H) = ZERO_NODE -> (forall n, node_kind (enc n) = kind H n) ->
    oracle_ok H enc hash_of (ref_trie img) ->
    wf_merkle hash_of img = true -> wf_root img = true -> all_len 256 (abs_kv img) = true ->
    forall k, length k = 256 ->
    seek_img hash_of img k =
    Some (map enc (pp_siblings (canonical_proof H 256 (abs_kv img) k)),
          pp_terminal (canonical_proof H 256 (abs_kv img) k)).
Proof. exact SeekPath_proofs.seek_refines. Qed.
Print Assumptions C05_seek_refines.

(* for the images the decoder produces the key-length clause is a theorem *)
Theorem C05_seek_refines_decoded : forall (H : Hasher) (enc : node H -> list N) hash_of fs img,
    decode_image fs = Image.Ok img ->
    HasherOK H -> enc (TERM H) = ZERO_NODE -> (forall n, node_kind (enc n) = kind H n) ->
    oracle_ok H enc hash_of (ref_trie img) ->
    wf_merkle hash_of img = true -> wf_root img = true ->
    forall k, length k = 256 ->
    seek_img hash_of img k =
    Some (map enc (pp_siblings (canonical_proof H 256 (abs_kv img) k)),
          pp_terminal (canonical_proof H 256 (abs_kv img) k)).
Proof. exact SeekPath_proofs.seek_refines_decoded. Qed.
Print Assumptions C05_seek_refines_decoded.

Theorem C05_decode_keys_256 : forall fs img,
    decode_image fs = Image.Ok img -> all_len 256 (abs_kv img) = true.
Proof. exact SeekPath_proofs.decode_keys_256. Qed.
Print Assumptions C05_decode_keys_256.

(* the same over a page map and key/value pairs alone *)
Theorem C05_seek_refines_kv : forall (H : Hasher) (enc : node H -> list N) hash_of pages (KV : kv),
    HasherOK H -> enc (TERM H) = ZERO_NODE -> (forall n, node_kind (enc n) = kind H n) ->
    oracle_ok H enc hash_of (fst (annotate (mk 256 0 KV) 1)) ->
    mw_fail (merkle_walk hash_of pages (fst (annotate (mk 256 0 KV) 1))) = None ->
    match KV with [] | [_] => root_page_clean pages | _ => true end = true ->
    all_len 256 KV = true ->
    forall k, length k = 256 ->
    seek hash_of pages KV k =
    Some (map enc (pp_siblings (canonical_proof H 256 KV k)), pp_terminal (canonical_proof H 256 KV k)).
Proof. exact SeekPath_proofs.seek_refines_kv. Qed.
Print Assumptions C05_seek_refines_kv.

(* what a passing merkle walk says about one node of the reference trie: its slot holds the
   oracle's bytes, and below it the pages are stored / marked elided as [good] spells out *)
Theorem C05_visit_good : forall hash_of pages t lab pd j acc ctx s,
    mw_fail (visit hash_of pages t lab pd j acc ctx s) = None ->
    mw_fail s = None /\ good hash_of pages t lab j acc ctx.
Proof. exact SeekPath_proofs.visit_good. Qed.
Print Assumptions C05_visit_good.

(* non-vacuity: the hypotheses hold for the hand-made store of SeekPath.v (two stored pages, one
   elided page, free-term hasher with a toy 32-byte encoding) *)
Example C05_seek_refines_applies : forall k, length k = 256 ->
    seek_img ex_ho ex_image k =
    Some (map toy_enc (pp_siblings (canonical_proof FreeH 256 (abs_kv ex_image) k)),
          pp_terminal (canonical_proof FreeH 256 (abs_kv ex_image) k)).
Proof. exact SeekPath_proofs.seek_refines_applies. Qed.
