(* C12 - A rejected or deferred commit has no effect at all (abstract machine level). *)
From Nomt Require Import Base Store Base_proofs Store_proofs.

Theorem C12_reject_noop : forall st id busy st' r,
  commit st id busy = (st', r) -> r <> COk ->
  cur st' = cur st /\ hist st' = hist st /\ seqn st' = seqn st /\ marker st' = marker st /\
  max_len st' = max_len st /\
  (forall j, j <> id -> find (csets st') j = find (csets st) j) /\
  (r = CDeferred -> st' = st).
Proof. exact Store_proofs.C12_reject_noop. Qed.
Print Assumptions C12_reject_noop.


(* The acceptance rule itself, for a change set without a parent overlay: the commit succeeds exactly
   when the committed state is its base AND no commit or rollback has happened since its session was
   taken; it is refused as stale exactly otherwise. *)
Theorem C12_commit_accept_iff : forall st id c,
  find (csets st) id = Some c -> c_parent c = None ->
  (snd (commit st id false) = COk <-> (cur st = c_base c /\ seqn st = c_seqn c)) /\
  (snd (commit st id false) = CStale <-> ~ (cur st = c_base c /\ seqn st = c_seqn c)).
Proof. exact Store_proofs.commit_accept_iff. Qed.
Print Assumptions C12_commit_accept_iff.

(* ABA: a parent-less session is finished in any state; then any operations at all (other sessions
   finished - under other identifiers: [no_reuse] -, turned into overlays, dropped, committed or refused;
   rollbacks) among which at least one commit or rollback succeeds ([moved]); its commit is refused as
   stale and changes nothing, whatever the committed state is by then - also when it is the change
   set's base again. *)
Theorem aba_rejected : forall st id batch ops,
  no_reuse id ops = true ->
  moved (finish st id [] batch) ops = true ->
  let st1 := run_ops (finish st id [] batch) ops in
  commit st1 id false = (drop st1 id, CStale) /\
  cur (drop st1 id) = cur st1 /\ hist (drop st1 id) = hist st1 /\ seqn (drop st1 id) = seqn st1 /\
  marker (drop st1 id) = marker st1 /\ max_len (drop st1 id) = max_len st1.
Proof. exact Store_proofs.aba_rejected. Qed.
Print Assumptions aba_rejected.

(* such histories where the base does come back.  Write then delete: change set 1 is prepared on the
   empty store, 2 inserts a key, 3 deletes it; the store is empty again (= the base of 1, fourth
   component) but two commits have happened since 1 was taken (count 0, now 2): refused, nothing
   changed *)
Example aba_example_delete :
  let k := [true; false] in
  let s0 := finish (init (Some 4)) 1%N [] [(k, Some (Some 7%N))] in
  let ops := [OFinish 2%N [] [(k, Some (Some 5%N))]; OCommit 2%N false;
              OFinish 3%N [] [(k, Some None)]; OCommit 3%N false] in
  let s1 := run_ops s0 ops in
  (no_reuse 1%N ops, moved s0 ops, cur s1, option_map c_base (find (csets s1) 1%N),
   option_map c_seqn (find (csets s1) 1%N), seqn s1,
   snd (commit s1 1%N false), cur (fst (commit s1 1%N false)), seqn (fst (commit s1 1%N false)),
   hist (fst (commit s1 1%N false))) =
  (true, true, [], Some [], Some 0%N, 2%N, CStale, [], 2%N, [[(k, 5%N)]; []]).
Proof. vm_compute. reflexivity. Qed.
Print Assumptions aba_example_delete.

(* commit then rollback *)
Example aba_example_rollback :
  let k := [true; false] in
  let s0 := finish (init (Some 4)) 1%N [] [(k, Some (Some 7%N))] in
  let ops := [OFinish 2%N [] [(k, Some (Some 5%N))]; OCommit 2%N false; ORollback 1] in
  let s1 := run_ops s0 ops in
  (no_reuse 1%N ops, moved s0 ops, cur s1, option_map c_base (find (csets s1) 1%N),
   option_map c_seqn (find (csets s1) 1%N), seqn s1,
   snd (commit s1 1%N false), cur (fst (commit s1 1%N false)), seqn (fst (commit s1 1%N false)),
   hist (fst (commit s1 1%N false))) =
  (true, true, [], Some [], Some 0%N, 2%N, CStale, [], 2%N, []).
Proof. vm_compute. reflexivity. Qed.
Print Assumptions aba_example_rollback.

(* across handles: the change set was prepared on a handle that has been closed since (the directory
   was reopened): refused and without effect on the new handle, whatever its state *)
Theorem C12_cross_handle_refused : forall st id busy,
  commit (reopen st) id busy = (reopen st, CUnknown) /\
  cur (reopen st) = cur st /\ hist (reopen st) = hist st /\ seqn (reopen st) = seqn st /\
  max_len (reopen st) = max_len st.
Proof. exact Store_proofs.cross_handle_refused. Qed.
Print Assumptions C12_cross_handle_refused.
