(* C12 - A rejected or deferred commit has no effect at all (abstract machine level). *)
From Nomt Require Import Base Store Base_proofs Store_proofs.

Theorem C12_reject_noop : forall st id busy st' r,
  commit st id busy = (st', r) -> r <> COk ->
  cur st' = cur st /\ hist st' = hist st /\ seqn st' = seqn st /\ marker st' = marker st /\
  max_len st' = max_len st /\
  (forall j, j <> id -> find (csets st') j = find (csets st) j) /\
  (r = CDeferred -> st' = st).
Proof. exact Store_proofs.C12_reject_noop. Qed.
Print Assumptions C12_reject_noop.

