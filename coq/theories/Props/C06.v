(* C06 - A session witness lets a stateless verifier replay the session (trie level). *)
From Nomt Require Import Base Hash Trie Result PathProof BuildTrie VerifyUpdate Witness
     Base_proofs Trie_proofs PathProof_proofs BuildTrie_proofs VerifyUpdate_proofs.

(* The update verifier of nomt-core (mirrored in VerifyUpdate.v), run on the canonical witness of a
   sorted write set (the verified canonical paths of the touched terminals, writes grouped by
   terminal), returns exactly the root of the updated key/value set - for every prior set, every
   write set (inserts, overwrites, deletes of present and absent keys, several keys per
   terminal), every key length and every hasher with correct node kinds. *)
Theorem C06_verify_update_correct : forall (H : Hasher), HasherOK H ->
  forall n S (W : list (key * option value)),
  wf n S -> kv_sorted S = true ->
  sorted_keys (map fst W) = true ->
  (forall k o, In (k, o) W -> length k = n) ->
  verify_update H n (root_n H n S) (group H n S W) = Ok (root_n H n (apply S W)).
Proof. exact VerifyUpdate_proofs.verify_update_correct. Qed.
Print Assumptions C06_verify_update_correct.

(* every path of the canonical witness verifies and attests exactly the prior set's view
   (C05_complete applied to each witnessed key) *)
Theorem C06_paths_verify : forall (H : Hasher), HasherOK H ->
  forall n S k, n <= 256 -> wf n S -> length k = n ->
  let p := canonical_proof H n S k in
  exists vp, verify H p k (root_n H n S) = Ok vp /\
    (forall v, get S k = Some v ->
       confirm_value H vp k v = Ok true /\ confirm_nonexistence H vp k = Ok false) /\
    (get S k = None -> confirm_nonexistence H vp k = Ok true) /\
    length (pp_siblings p) <= n.
Proof. exact PathProof_proofs.C05_complete. Qed.
Print Assumptions C06_paths_verify.

(* the statement needs the prior set in canonical (sorted) form, as the store keeps it: without
   that hypothesis it is refuted (the specification-side [apply] is only meaningful on sorted lists) *)
Theorem C06_unsorted_counterexample_recorded :
  ~ (forall (H : Hasher), HasherOK H ->
     forall n S (W : list (key * option value)),
     wf n S -> sorted_keys (map fst W) = true ->
     (forall k o, In (k, o) W -> length k = n) ->
     verify_update H n (root_n H n S) (group H n S W) = Ok (root_n H n (apply S W))).
Proof. exact VerifyUpdate_proofs.verify_update_unsorted_counterexample. Qed.
Print Assumptions C06_unsorted_counterexample_recorded.
