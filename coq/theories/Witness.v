(* Specification of what a session witness contains, as a function of the prior key/value set
   and the batch: the terminal each key's lookup ends in, the canonical (verified) path to it,
   and the writes grouped by terminal in key order. *)
From Nomt Require Import Base Hash Trie Result PathProof VerifyUpdate.

Section WithHasher.
  Variable H : Hasher.

  (* the verified canonical path of key k in the set S (what PathProof::verify returns on the
     canonical proof: PathProof_proofs.C05_complete) *)
  Definition vp_of (n : nat) (S : kv) (k : key) : verified H :=
    let '(sibs, tm) := walk H (mk n 0 S) k 0 in
    {| vp_path := firstn (length sibs) k;
       vp_terminal := match tm with TLeaf k' v' => Some (k', v') | TTerm _ => None end;
       vp_siblings := sibs;
       vp_root := root_n H n S |}.

  (* split off the longest prefix of the (sorted) ops that lies below the path *)
  Fixpoint span_under (path : key) (W : list (key * option value))
    : list (key * option value) * list (key * option value) :=
    match W with
    | [] => ([], [])
    | (k, o) :: W' =>
        if is_prefix path k
        then let '(a, b) := span_under path W' in ((k, o) :: a, b)
        else ([], W)
    end.

  (* group a sorted write set by terminal; fuel = length W suffices *)
  Fixpoint group_fuel (fuel : nat) (n : nat) (S : kv) (W : list (key * option value))
    : list (path_update H) :=
    match fuel, W with
    | Datatypes.S f, (k, o) :: W' =>
        let vp := vp_of n S k in
        let '(mine, rest) := span_under (vp_path vp) W' in
        {| pu_inner := vp; pu_ops := (k, o) :: mine |} :: group_fuel f n S rest
    | _, _ => []
    end.

  Definition group (n : nat) (S : kv) (W : list (key * option value)) : list (path_update H) :=
    group_fuel (length W) n S W.
End WithHasher.
