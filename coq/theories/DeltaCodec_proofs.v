(* DeltaCodec_proofs: the codec of the rollback log's records (DeltaCodec.v, mirror of
   nomt/src/rollback/delta.rs) is a bijection between deltas and their encodings.

     delta_decode_encode   decoding the encoding of a delta, whatever the order in which the map was
                           visited, yields exactly that delta (same entries: an absent prior stays
                           [None], an empty prior value stays [Some []])
     delta_decode_total    every byte string gets a verdict, never [Panic]; the fuel of the loops
                           never runs out ([decode_groups_fuel])
     delta_encode_inj      two deltas with the same encoding are the same map
     delta_reencode        whatever decodes, encodes back to the bytes that were consumed
     delta_decode_order    the order of the map iteration does not matter *)
From Coq Require Import List Bool Arith NArith Lia Permutation.
From Nomt Require Import Result Wal Wal_proofs DeltaCodec.
Import ListNotations.
Local Open Scope N_scope.

(* ------------------------------------------------------------------------------------------- *)
(* bytes, keys                                                                                   *)

Lemma bytes_eqb_eq : forall a b, bytes_eqb a b = true <-> a = b.
Proof.
  induction a as [|x a IH]; intros [|y b]; cbn [bytes_eqb]; split; intros H;
    try reflexivity; try discriminate.
  - destruct (N.eqb_spec x y) as [->|Hne]; [|discriminate]. f_equal. now apply IH.
  - inversion H; subst. rewrite N.eqb_refl. now apply IH.
Qed.

Lemma bytes_eqb_neq : forall a b, bytes_eqb a b = false <-> a <> b.
Proof.
  intros a b. split.
  - intros H E. apply bytes_eqb_eq in E. congruence.
  - intros H. destruct (bytes_eqb a b) eqn:E; [|reflexivity]. apply bytes_eqb_eq in E. contradiction.
Qed.

Lemma mem_in : forall k seen, mem k seen = true <-> In k seen.
Proof.
  intros k seen. unfold mem. rewrite existsb_exists. split.
  - intros (x & Hin & He). apply bytes_eqb_eq in He. now subst.
  - intros H. exists k. split; [exact H | now apply bytes_eqb_eq].
Qed.

Lemma mem_not_in : forall k seen, mem k seen = false <-> ~ In k seen.
Proof.
  intros k seen. split.
  - intros H Hin. apply mem_in in Hin. congruence.
  - intros H. destruct (mem k seen) eqn:E; [|reflexivity]. apply mem_in in E. contradiction.
Qed.

Lemma nlen_aux_length : forall (A : Type) (l : list A) acc, nlen_aux l acc = acc + N.of_nat (length l).
Proof.
  induction l as [|x l IH]; intros acc; cbn [nlen_aux length].
  - lia.
  - rewrite IH. lia.
Qed.

Lemma nlen_length : forall (A : Type) (l : list A), nlen l = N.of_nat (length l).
Proof. intros A l. unfold nlen. rewrite nlen_aux_length. lia. Qed.

Lemma pow_256_4 : 256 ^ N.of_nat 4 = 2 ^ 32.
Proof. reflexivity. Qed.

Lemma u32_small : forall x, x < 2 ^ 32 -> u32 x = x.
Proof. intros x H. unfold u32. now apply N.mod_small. Qed.

(* ------------------------------------------------------------------------------------------- *)
(* the readers on what the writer produces                                                       *)

Lemma dread_buf_app : forall st a r, read_buf st (length a) (a ++ r) = Ok (a, r).
Proof. intros st a r. unfold read_buf. now rewrite take_app. Qed.

Lemma dread_u32_app : forall st x r, x < 2 ^ 32 -> read_u32 st (le_bytes 4 x ++ r) = Ok (x, r).
Proof.
  intros st x r Hx. unfold read_u32.
  rewrite <- (le_bytes_length 4 x) at 1. rewrite dread_buf_app.
  cbn [bind fst snd]. rewrite le_num_le_bytes; [reflexivity | now rewrite pow_256_4].
Qed.

Lemma takeN_app : forall v r acc, takeN (v ++ r) (N.of_nat (length v)) acc = Some (rev acc ++ v, r).
Proof.
  induction v as [|x v IH]; intros r acc.
  - cbn [app length N.of_nat]. destruct r; cbn [takeN N.eqb]; rewrite rev_append_rev, !app_nil_r; reflexivity.
  - cbn [app length takeN].
    replace (N.of_nat (S (length v)) =? 0) with false by (symmetry; apply N.eqb_neq; lia).
    replace (N.pred (N.of_nat (S (length v)))) with (N.of_nat (length v)) by lia.
    rewrite IH. cbn [rev]. rewrite <- app_assoc. reflexivity.
Qed.

Lemma takeN_some : forall l n acc a r, takeN l n acc = Some (a, r) ->
  exists v, a = rev acc ++ v /\ l = v ++ r /\ N.of_nat (length v) = n.
Proof.
  induction l as [|x l IH]; intros n acc a r H; cbn [takeN] in H.
  - destruct (N.eqb_spec n 0) as [->|Hn].
    + inversion H; subst. exists []. rewrite rev_append_rev, !app_nil_r. repeat split.
    + discriminate.
  - destruct (N.eqb_spec n 0) as [->|Hn].
    + inversion H; subst. exists []. rewrite rev_append_rev, !app_nil_r. repeat split.
    + apply IH in H. destruct H as (v & Ha & Hl & Hv).
      exists (x :: v). cbn [rev] in Ha. rewrite <- app_assoc in Ha. cbn [app] in Ha.
      repeat split; [exact Ha | now rewrite Hl |]. cbn [length]. lia.
Qed.

Lemma dread_val_app : forall v r, read_val (N.of_nat (length v)) (v ++ r) = Ok (v, r).
Proof. intros v r. unfold read_val. now rewrite takeN_app. Qed.

(* ------------------------------------------------------------------------------------------- *)
(* well-formed deltas                                                                            *)

Definition key32 (k : list N) : Prop := length k = 32%nat.

(* the groups of a delta: 32-byte keys, no key twice (it is a map), counts and value lengths fit
   the u32 fields.  No condition on the VALUE of a byte, none on the contents of the values: the
   empty value is a value *)
Definition wf_groups (g : groups) : Prop :=
  Forall key32 (g_erase g) /\
  Forall (fun kv => key32 (fst kv) /\ N.of_nat (length (snd kv)) < 2 ^ 32) (g_reinstate g) /\
  NoDup (g_erase g ++ map fst (g_reinstate g)) /\
  N.of_nat (length (g_erase g)) < 2 ^ 32 /\ N.of_nat (length (g_reinstate g)) < 2 ^ 32.

(* a delta, its entries listed in some order (the HashMap's) *)
Definition wf_priors (p : list prior) : Prop :=
  NoDup (map fst p) /\
  Forall (fun kv => key32 (fst kv) /\
                    match snd kv with Some v => N.of_nat (length v) < 2 ^ 32 | None => True end) p /\
  N.of_nat (length p) < 2 ^ 32.

(* ------------------------------------------------------------------------------------------- *)
(* round trip, level of the groups                                                               *)

Lemma enc_erase_app : forall ks t x, enc_erase ks t ++ x = enc_erase ks (t ++ x).
Proof.
  induction ks as [|k ks IH]; intros t x; cbn [enc_erase fold_right].
  - reflexivity.
  - fold (enc_erase ks t). fold (enc_erase ks (t ++ x)). rewrite <- app_assoc. now rewrite IH.
Qed.

Lemma enc_reinstate_app : forall kvs t x, enc_reinstate kvs t ++ x = enc_reinstate kvs (t ++ x).
Proof.
  induction kvs as [|kv kvs IH]; intros t x; cbn [enc_reinstate fold_right].
  - reflexivity.
  - fold (enc_reinstate kvs t). fold (enc_reinstate kvs (t ++ x)).
    rewrite <- !app_assoc. now rewrite IH.
Qed.

Lemma encode_groups_tl_app : forall g t, encode_groups g ++ t = encode_groups_tl g t.
Proof.
  intros g t. unfold encode_groups, encode_groups_tl.
  rewrite <- app_assoc, enc_erase_app, <- app_assoc, enc_reinstate_app. reflexivity.
Qed.

Lemma read_erase_enc : forall er fuel seen t,
  Forall key32 er -> NoDup er -> (forall k, In k er -> ~ In k seen) ->
  (length er < length fuel)%nat ->
  read_erase fuel (N.of_nat (length er)) seen (enc_erase er t) = Ok (er, t).
Proof.
  induction er as [|k er IH]; intros fuel seen t Hk Hnd Hdis Hf.
  - destruct fuel; reflexivity.
  - destruct fuel as [|x f]; [cbn in Hf; lia|].
    inversion Hk as [|? ? Hk1 Hk2]; subst. inversion Hnd as [|? ? Hn1 Hn2]; subst.
    cbn [length read_erase enc_erase fold_right]. fold (enc_erase er t).
    replace (N.of_nat (S (length er)) =? 0) with false by (symmetry; apply N.eqb_neq; lia).
    replace (N.pred (N.of_nat (S (length er)))) with (N.of_nat (length er)) by lia.
    unfold key32 in Hk1. rewrite <- Hk1 at 1. rewrite dread_buf_app. cbn [bind fst snd].
    replace (mem k seen) with false
      by (symmetry; apply mem_not_in; apply Hdis; now left).
    rewrite IH; [reflexivity | assumption | assumption | | cbn [length] in Hf; lia].
    intros k' Hin [E|Hs]; [subst; contradiction | exact (Hdis k' (or_intror Hin) Hs)].
Qed.

Lemma read_reinstate_enc : forall re fuel seen t,
  Forall (fun kv => key32 (fst kv) /\ N.of_nat (length (snd kv)) < 2 ^ 32) re ->
  NoDup (map fst re) -> (forall k, In k (map fst re) -> ~ In k seen) ->
  (length re < length fuel)%nat ->
  read_reinstate fuel (N.of_nat (length re)) seen (enc_reinstate re t) = Ok (re, t).
Proof.
  induction re as [|[k v] re IH]; intros fuel seen t Hk Hnd Hdis Hf.
  - destruct fuel; reflexivity.
  - destruct fuel as [|x f]; [cbn in Hf; lia|].
    inversion Hk as [|? ? [Hk1 Hv1] Hk2]; subst. cbn [map fst] in Hnd.
    inversion Hnd as [|? ? Hn1 Hn2]; subst. cbn [fst snd] in Hk1, Hv1.
    cbn [length read_reinstate enc_reinstate fold_right fst snd]. fold (enc_reinstate re t).
    replace (N.of_nat (S (length re)) =? 0) with false by (symmetry; apply N.eqb_neq; lia).
    replace (N.pred (N.of_nat (S (length re)))) with (N.of_nat (length re)) by lia.
    unfold key32 in Hk1. rewrite <- Hk1 at 1. rewrite dread_buf_app. cbn [bind fst snd].
    rewrite nlen_length, u32_small by assumption.
    rewrite dread_u32_app by assumption. cbn [bind fst snd].
    rewrite dread_val_app. cbn [bind fst snd].
    replace (mem k seen) with false
      by (symmetry; apply mem_not_in; apply Hdis; now left).
    rewrite IH; [reflexivity | assumption | assumption | | cbn [length] in Hf; lia].
    intros k' Hin [E|Hs]; [subst; contradiction | exact (Hdis k' (or_intror Hin) Hs)].
Qed.

Lemma enc_erase_length32 : forall ks t, Forall key32 ks ->
  length (enc_erase ks t) = (32 * length ks + length t)%nat.
Proof.
  induction ks as [|k ks IH]; intros t H; cbn [enc_erase fold_right length].
  - lia.
  - fold (enc_erase ks t). inversion H as [|? ? Hk Hks]; subst. unfold key32 in Hk.
    rewrite app_length, IH by assumption. lia.
Qed.

Lemma enc_reinstate_length_ge : forall kvs t,
  (length kvs + length t <= length (enc_reinstate kvs t))%nat.
Proof.
  induction kvs as [|kv kvs IH]; intros t; cbn [enc_reinstate fold_right length].
  - lia.
  - fold (enc_reinstate kvs t). rewrite !app_length, le_bytes_length. specialize (IH t). lia.
Qed.

Lemma NoDup_app_inv : forall (A : Type) (a b : list A), NoDup (a ++ b) ->
  NoDup a /\ NoDup b /\ forall k, In k b -> ~ In k a.
Proof.
  induction a as [|x a IH]; intros b H; cbn [app] in H.
  - repeat split; [constructor | exact H | intros k _ []].
  - inversion H as [|? ? Hn Hnd]; subst. apply IH in Hnd. destruct Hnd as (Ha & Hb & Hd).
    repeat split.
    + constructor; [|exact Ha]. intros Hin. apply Hn. apply in_or_app. now left.
    + exact Hb.
    + intros k Hk [<-|Hin]; [apply Hn; apply in_or_app; now right | exact (Hd k Hk Hin)].
Qed.

(* decoding what [encode] wrote gives back the two groups, entry by entry, in the order in which
   they were written; bytes behind the record are left in the cursor *)
Theorem decode_encode_groups : forall g t, wf_groups g ->
  decode_groups (encode_groups g ++ t) = Ok (g, t).
Proof.
  intros [er re] t (Her & Hre & Hnd & Hc1 & Hc2). cbn [g_erase g_reinstate] in *.
  rewrite encode_groups_tl_app. unfold decode_groups, encode_groups_tl. cbn [g_erase g_reinstate].
  rewrite !nlen_length, !u32_small by assumption.
  rewrite dread_u32_app by assumption. cbn [bind fst snd].
  apply NoDup_app_inv in Hnd. destruct Hnd as (Hnd1 & Hnd2 & Hdis).
  rewrite read_erase_enc; [| assumption | assumption | intros k _ [] |].
  2:{ cbn [length]. rewrite enc_erase_length32 by assumption. lia. }
  cbn [bind fst snd].
  rewrite dread_u32_app by assumption. cbn [bind fst snd].
  rewrite read_reinstate_enc; [reflexivity | assumption | assumption | exact Hdis |].
  - cbn [length]. pose proof (enc_reinstate_length_ge re t). lia.
Qed.

(* ------------------------------------------------------------------------------------------- *)
(* totality                                                                                      *)

Lemma dread_buf_np : forall st n l, read_buf st n l <> Panic.
Proof. intros st n l. unfold read_buf. destruct (take n l); discriminate. Qed.

Lemma dread_u32_np : forall st l, read_u32 st l <> Panic.
Proof. intros st l. unfold read_u32. apply bind_no_panic; [apply dread_buf_np | discriminate]. Qed.

Lemma dread_val_np : forall n l, read_val n l <> Panic.
Proof. intros n l. unfold read_val. destruct (takeN l n []); discriminate. Qed.

Lemma read_erase_np : forall fuel n seen l, read_erase fuel n seen l <> Panic.
Proof.
  induction fuel as [|x f IH]; intros n seen l; cbn [read_erase];
    (destruct (n =? 0); [discriminate|]); [discriminate|].
  apply bind_no_panic; [apply dread_buf_np|]. intros k.
  destruct (mem (fst k) seen); [discriminate|].
  apply bind_no_panic; [apply IH | discriminate].
Qed.

Lemma read_reinstate_np : forall fuel n seen l, read_reinstate fuel n seen l <> Panic.
Proof.
  induction fuel as [|x f IH]; intros n seen l; cbn [read_reinstate];
    (destruct (n =? 0); [discriminate|]); [discriminate|].
  apply bind_no_panic; [apply dread_buf_np|]. intros k.
  apply bind_no_panic; [apply dread_u32_np|]. intros vl.
  apply bind_no_panic; [apply dread_val_np|]. intros v.
  destruct (mem (fst k) seen); [discriminate|].
  apply bind_no_panic; [apply IH | discriminate].
Qed.

Theorem decode_groups_total : forall bytes, decode_groups bytes <> Panic.
Proof.
  intros bytes. unfold decode_groups.
  apply bind_no_panic; [apply dread_u32_np|]. intros c1.
  apply bind_no_panic; [apply read_erase_np|]. intros er.
  apply bind_no_panic; [apply dread_u32_np|]. intros c2.
  apply bind_no_panic; [apply read_reinstate_np | discriminate].
Qed.

(* every byte string gets a verdict: a delta or one of the errors of [delta_err]; there is no input
   on which [Delta::decode] panics *)
Theorem delta_decode_total : forall bytes, delta_decode bytes <> Panic.
Proof.
  intros bytes. unfold delta_decode. apply bind_no_panic; [apply decode_groups_total | discriminate].
Qed.

Corollary delta_decode_verdict : forall bytes,
  (exists p, delta_decode bytes = Ok p) \/ (exists e, delta_decode bytes = Err e).
Proof.
  intros bytes. pose proof (delta_decode_total bytes) as H.
  destruct (delta_decode bytes) as [p|e|]; [left; eauto | right; eauto | contradiction].
Qed.

(* ------------------------------------------------------------------------------------------- *)
(* what a successful read consumed                                                               *)

Lemma dread_buf_ok : forall st n l a r, read_buf st n l = Ok (a, r) -> l = a ++ r /\ length a = n.
Proof.
  intros st n l a r H. unfold read_buf in H. destruct (take n l) as [[a' r']|] eqn:E; [|discriminate].
  inversion H; subst. now apply take_some.
Qed.

Lemma dread_u32_ok : forall st l x r, read_u32 st l = Ok (x, r) ->
  exists b, l = b ++ r /\ length b = 4%nat /\ x = le_num b.
Proof.
  intros st l x r H. unfold read_u32 in H. apply bind_ok in H. destruct H as ([a r'] & H1 & H2).
  cbn [fst snd] in H2. inversion H2; subst. apply dread_buf_ok in H1. destruct H1 as [-> H1].
  exists a. repeat split. exact H1.
Qed.

Lemma dread_val_ok : forall n l v r, read_val n l = Ok (v, r) -> l = v ++ r /\ N.of_nat (length v) = n.
Proof.
  intros n l v r H. unfold read_val in H. destruct (takeN l n []) as [[a r']|] eqn:E; [|discriminate].
  inversion H; subst. apply takeN_some in E. destruct E as (v' & Ha & Hl & Hn).
  cbn [rev app] in Ha. subst. split; reflexivity.
Qed.

(* the fuel never runs out: with fuel longer than the input the loops do not depend on it *)
Lemma read_erase_fuel : forall f1 f2 n seen l,
  (length l < length f1)%nat -> (length l < length f2)%nat ->
  read_erase f1 n seen l = read_erase f2 n seen l.
Proof.
  induction f1 as [|x f1 IH]; intros f2 n seen l H1 H2; [cbn in H1; lia|].
  destruct f2 as [|y f2]; [cbn in H2; lia|].
  cbn [read_erase]. destruct (n =? 0); [reflexivity|].
  destruct (read_buf SEraseKey 32 l) as [[k r]|e|] eqn:E; cbn [bind fst snd]; try reflexivity.
  destruct (mem k seen); [reflexivity|].
  apply dread_buf_ok in E. destruct E as [-> Hk]. rewrite app_length in H1, H2. cbn [length] in H1, H2.
  rewrite (IH f2); [reflexivity | lia | lia].
Qed.

Lemma read_reinstate_fuel : forall f1 f2 n seen l,
  (length l < length f1)%nat -> (length l < length f2)%nat ->
  read_reinstate f1 n seen l = read_reinstate f2 n seen l.
Proof.
  induction f1 as [|x f1 IH]; intros f2 n seen l H1 H2; [cbn in H1; lia|].
  destruct f2 as [|y f2]; [cbn in H2; lia|].
  cbn [read_reinstate]. destruct (n =? 0); [reflexivity|].
  destruct (read_buf SReinstateKey 32 l) as [[k r]|e|] eqn:E; cbn [bind fst snd]; try reflexivity.
  destruct (read_u32 SValueLen r) as [[vl r1]|e|] eqn:E1; cbn [bind fst snd]; try reflexivity.
  destruct (read_val vl r1) as [[v r2]|e|] eqn:E2; cbn [bind fst snd]; try reflexivity.
  destruct (mem k seen); [reflexivity|].
  apply dread_buf_ok in E. destruct E as [-> Hk].
  apply dread_u32_ok in E1. destruct E1 as (b & -> & Hb & _).
  apply dread_val_ok in E2. destruct E2 as [-> _].
  rewrite !app_length in H1, H2. cbn [length] in H1, H2.
  rewrite (IH f2); [reflexivity | lia | lia].
Qed.

Lemma read_erase_rest_le : forall fuel n seen l er r,
  read_erase fuel n seen l = Ok (er, r) -> (length r <= length l)%nat.
Proof.
  induction fuel as [|x f IH]; intros n seen l er r H; cbn [read_erase] in H.
  - destruct (n =? 0); [|discriminate]. inversion H; subst. lia.
  - destruct (n =? 0); [inversion H; subst; lia|].
    apply bind_ok in H. destruct H as ([k r1] & Hk & H). cbn [fst snd] in H.
    destruct (mem k seen); [discriminate|].
    apply bind_ok in H. destruct H as ([q rq] & Hq & H). cbn [fst snd] in H.
    inversion H; subst. apply dread_buf_ok in Hk. destruct Hk as [-> _].
    apply IH in Hq. rewrite app_length. lia.
Qed.

(* [decode_groups] with any other sufficient fuel is the same function *)
Theorem decode_groups_fuel : forall bytes f1 f2,
  (length bytes < length f1)%nat -> (length bytes < length f2)%nat ->
  decode_groups bytes =
  bind (read_u32 SEraseCount bytes) (fun c1 =>
  bind (read_erase f1 (fst c1) [] (snd c1)) (fun er =>
  bind (read_u32 SReinstateCount (snd er)) (fun c2 =>
  bind (read_reinstate f2 (fst c2) (fst er) (snd c2)) (fun re =>
  Ok (mkGroups (fst er) (fst re), snd re))))).
Proof.
  intros bytes f1 f2 H1 H2. unfold decode_groups.
  destruct (read_u32 SEraseCount bytes) as [[c1 r1]|e|] eqn:E1; cbn [bind fst snd]; try reflexivity.
  apply dread_u32_ok in E1. destruct E1 as (b1 & -> & Hb1 & _). rewrite app_length in H1, H2.
  rewrite (read_erase_fuel (0 :: r1) f1) by (cbn [length]; lia).
  destruct (read_erase f1 c1 [] r1) as [[er r2]|e|] eqn:E2; cbn [bind fst snd]; try reflexivity.
  destruct (read_u32 SReinstateCount r2) as [[c2 r3]|e|] eqn:E3; cbn [bind fst snd]; try reflexivity.
  apply dread_u32_ok in E3. destruct E3 as (b3 & -> & Hb3 & _).
  pose proof (read_erase_rest_le _ _ _ _ _ _ E2) as Hlen.
  rewrite app_length in Hlen.
  rewrite (read_reinstate_fuel (0 :: r3) f2); [reflexivity | cbn [length]; lia | lia].
Qed.

(* ------------------------------------------------------------------------------------------- *)
(* decode is injective: what decodes, encodes back to the consumed bytes                         *)

Definition byte (b : N) : Prop := b < 256.

Lemma le_bytes_le_num : forall b, Forall byte b -> le_bytes (length b) (le_num b) = b.
Proof.
  induction b as [|x b IH]; intros H; cbn [length le_bytes le_num].
  - reflexivity.
  - inversion H as [|? ? Hx Hb]; subst. unfold byte in Hx.
    replace ((x + 256 * le_num b) mod 256) with x
      by (apply (N.mod_unique _ 256 (le_num b)); [exact Hx | lia]).
    replace ((x + 256 * le_num b) / 256) with (le_num b)
      by (apply (N.div_unique _ 256 _ x); [exact Hx | lia]).
    now rewrite IH.
Qed.

Lemma le_num_bound : forall b, Forall byte b -> le_num b < 256 ^ N.of_nat (length b).
Proof.
  induction b as [|x b IH]; intros H; cbn [length le_num].
  - cbn. lia.
  - inversion H as [|? ? Hx Hb]; subst. unfold byte in Hx. specialize (IH Hb).
    rewrite Nat2N.inj_succ, N.pow_succ_r'. lia.
Qed.

Lemma read_erase_ok : forall fuel n seen l er r, read_erase fuel n seen l = Ok (er, r) ->
  l = enc_erase er r /\ N.of_nat (length er) = n /\ Forall key32 er /\
  NoDup er /\ (forall k, In k er -> ~ In k seen).
Proof.
  induction fuel as [|x f IH]; intros n seen l er r H; cbn [read_erase] in H.
  - destruct (N.eqb_spec n 0) as [->|Hn]; [|discriminate]. inversion H; subst.
    repeat split; try constructor. intros k [].
  - destruct (N.eqb_spec n 0) as [->|Hn].
    { inversion H; subst. repeat split; try constructor. intros k []. }
    apply bind_ok in H. destruct H as ([k r1] & Hk & H). cbn [fst snd] in H.
    destruct (mem k seen) eqn:Hm; [discriminate|].
    apply bind_ok in H. destruct H as ([q rq] & Hq & H). cbn [fst snd] in H.
    inversion H; subst. apply dread_buf_ok in Hk. destruct Hk as [-> Hk].
    apply IH in Hq. destruct Hq as (-> & Hc & Hks & Hnd & Hdis).
    apply mem_not_in in Hm.
    repeat split.
    + cbn [length]. lia.
    + constructor; assumption.
    + constructor; [|assumption]. intros Hin. apply (Hdis k Hin). now left.
    + intros k' [<-|Hin]; [exact Hm|]. intros Hs. apply (Hdis k' Hin). now right.
Qed.

Lemma read_reinstate_ok : forall fuel n seen l re r, Forall byte l ->
  read_reinstate fuel n seen l = Ok (re, r) ->
  l = enc_reinstate re r /\ N.of_nat (length re) = n /\
  Forall (fun kv => key32 (fst kv) /\ N.of_nat (length (snd kv)) < 2 ^ 32) re /\
  NoDup (map fst re) /\ (forall k, In k (map fst re) -> ~ In k seen).
Proof.
  induction fuel as [|x f IH]; intros n seen l re r Hb H; cbn [read_reinstate] in H.
  - destruct (N.eqb_spec n 0) as [->|Hn]; [|discriminate]. inversion H; subst.
    repeat split; try constructor. intros k [].
  - destruct (N.eqb_spec n 0) as [->|Hn].
    { inversion H; subst. repeat split; try constructor. intros k []. }
    apply bind_ok in H. destruct H as ([k r1] & Hk & H). cbn [fst snd] in H.
    apply bind_ok in H. destruct H as ([vl r2] & Hvl & H). cbn [fst snd] in H.
    apply bind_ok in H. destruct H as ([v r3] & Hv & H). cbn [fst snd] in H.
    destruct (mem k seen) eqn:Hm; [discriminate|].
    apply bind_ok in H. destruct H as ([q rq] & Hq & H). cbn [fst snd] in H.
    inversion H; subst.
    apply dread_buf_ok in Hk. destruct Hk as [-> Hk].
    apply dread_u32_ok in Hvl. destruct Hvl as (b & -> & Hb4 & ->).
    apply dread_val_ok in Hv. destruct Hv as [-> Hv].
    apply Forall_app in Hb. destruct Hb as [_ Hb].
    apply Forall_app in Hb. destruct Hb as [Hbb Hb].
    apply Forall_app in Hb. destruct Hb as [_ Hb].
    apply IH in Hq; [|exact Hb]. destruct Hq as (-> & Hc & Hks & Hnd & Hdis).
    apply mem_not_in in Hm.
    pose proof (le_num_bound b Hbb) as Hbound. rewrite Hb4, pow_256_4 in Hbound.
    repeat split.
    + cbn [enc_reinstate fold_right fst snd]. fold (enc_reinstate q r).
      rewrite nlen_length, Hv, u32_small by assumption.
      rewrite <- Hb4. rewrite le_bytes_le_num by assumption. reflexivity.
    + cbn [length]. lia.
    + constructor; [|assumption]. cbn [fst snd]. split; [exact Hk | now rewrite Hv].
    + cbn [map fst]. constructor; [|assumption]. intros Hin. apply (Hdis k Hin). now left.
    + cbn [map fst]. intros k' [<-|Hin]; [exact Hm|]. intros Hs. apply (Hdis k' Hin). now right.
Qed.

(* whatever [decode] accepts is the encoding of the groups it returns, followed by the bytes it
   left in the cursor; and what it returns is a well-formed delta *)
Theorem delta_reencode : forall bytes g r, Forall byte bytes ->
  decode_groups bytes = Ok (g, r) -> encode_groups g ++ r = bytes /\ wf_groups g.
Proof.
  intros bytes g r Hb H. unfold decode_groups in H.
  apply bind_ok in H. destruct H as ([c1 r1] & H1 & H). cbn [fst snd] in H.
  apply bind_ok in H. destruct H as ([er r2] & H2 & H). cbn [fst snd] in H.
  apply bind_ok in H. destruct H as ([c2 r3] & H3 & H). cbn [fst snd] in H.
  apply bind_ok in H. destruct H as ([re r4] & H4 & H). cbn [fst snd] in H.
  inversion H; subst.
  apply dread_u32_ok in H1. destruct H1 as (b1 & -> & Hb1 & ->).
  apply Forall_app in Hb. destruct Hb as [Hbb1 Hb].
  apply read_erase_ok in H2. destruct H2 as (-> & Hc1 & Hks & Hnd1 & _).
  apply dread_u32_ok in H3. destruct H3 as (b3 & -> & Hb3 & ->).
  assert (Hb' : Forall byte (b3 ++ r3)).
  { clear - Hb. induction er as [|k er IH]; cbn [enc_erase fold_right] in Hb; [exact Hb|].
    apply Forall_app in Hb. destruct Hb as [_ Hb]. now apply IH. }
  apply Forall_app in Hb'. destruct Hb' as [Hbb3 Hb'].
  apply read_reinstate_ok in H4; [|exact Hb']. destruct H4 as (-> & Hc2 & Hkv & Hnd2 & Hdis).
  pose proof (le_num_bound b1 Hbb1) as Hbound1. rewrite Hb1, pow_256_4 in Hbound1.
  pose proof (le_num_bound b3 Hbb3) as Hbound3. rewrite Hb3, pow_256_4 in Hbound3.
  split.
  - rewrite encode_groups_tl_app. unfold encode_groups_tl. cbn [g_erase g_reinstate].
    rewrite !nlen_length, Hc1, Hc2, !u32_small by assumption.
    rewrite <- Hb1 at 1. rewrite le_bytes_le_num by assumption.
    rewrite <- Hb3 at 1. rewrite le_bytes_le_num by assumption. reflexivity.
  - unfold wf_groups. cbn [g_erase g_reinstate]. repeat split; try assumption; try lia.
    clear - Hnd1 Hnd2 Hdis. induction er as [|k er IH]; cbn [app]; [exact Hnd2|].
    inversion Hnd1 as [|? ? Hn Hnd]; subst. constructor.
    + intros Hin. apply in_app_or in Hin. destruct Hin as [Hin|Hin]; [contradiction|].
      apply (Hdis k Hin). now left.
    + apply IH; [assumption|]. intros k' Hin Hs. apply (Hdis k' Hin). now right.
Qed.

(* ------------------------------------------------------------------------------------------- *)
(* level of the map                                                                              *)

Lemma split_priors_perm : forall p,
  Permutation (priors_of (groups_of p)) p.
Proof.
  intros p. unfold groups_of, priors_of.
  induction p as [|[k [v|]] p IH]; cbn [split_priors].
  - constructor.
  - destruct (split_priors p) as [e s]. cbn [g_erase g_reinstate map fst snd] in *.
    apply Permutation_sym. apply Permutation_cons_app. apply Permutation_sym. exact IH.
  - destruct (split_priors p) as [e s]. cbn [g_erase g_reinstate map fst snd app] in *.
    now constructor.
Qed.

Lemma priors_of_keys : forall g, map fst (priors_of g) = g_erase g ++ map fst (g_reinstate g).
Proof.
  intros g. unfold priors_of. rewrite map_app, !map_map. cbn [fst]. now rewrite map_id.
Qed.

Lemma split_priors_length : forall p,
  (length (fst (split_priors p)) + length (snd (split_priors p)) = length p)%nat.
Proof.
  induction p as [|[k [v|]] p IH]; cbn [split_priors].
  - reflexivity.
  - destruct (split_priors p) as [e s]. cbn [fst snd length] in *. lia.
  - destruct (split_priors p) as [e s]. cbn [fst snd length] in *. lia.
Qed.

Lemma wf_priors_groups : forall p, wf_priors p -> wf_groups (groups_of p).
Proof.
  intros p (Hnd & Hf & Hlen).
  pose proof (split_priors_perm p) as Hperm.
  pose proof (split_priors_length p) as Hl.
  unfold groups_of in *. destruct (split_priors p) as [e s]. cbn [fst snd] in Hl.
  unfold wf_groups. cbn [g_erase g_reinstate].
  assert (Hin : forall kv, In kv (priors_of (mkGroups e s)) -> In kv p)
    by (intros kv; apply Permutation_in; exact Hperm).
  rewrite Forall_forall in Hf.
  repeat split.
  - apply Forall_forall. intros k Hk.
    assert (H : In (k, None) p).
    { apply Hin. unfold priors_of. cbn [g_erase]. apply in_or_app. left. now apply (in_map (fun k => (k, None))). }
    apply Hf in H. now destruct H.
  - apply Forall_forall. intros [k v] Hk.
    assert (H : In (k, Some v) p).
    { apply Hin. unfold priors_of. cbn [g_reinstate]. apply in_or_app. right.
      now apply (in_map (fun kv : list N * list N => (fst kv, Some (snd kv))) s (k, v)). }
    apply Hf in H. exact H.
  - pose proof (priors_of_keys (mkGroups e s)) as Hk. cbn [g_erase g_reinstate] in Hk. rewrite <- Hk.
    apply (Permutation_NoDup (l := map fst p)); [|exact Hnd].
    apply Permutation_map. now apply Permutation_sym.
  - lia.
  - lia.
Qed.

(* lookup in an association list without repeated keys *)
Lemma alookup_none : forall k p, alookup k p = None <-> ~ In k (map fst p).
Proof.
  intros k. induction p as [|[k' v] p IH]; cbn [alookup map fst In].
  - split; [intros _ [] | reflexivity].
  - destruct (bytes_eqb k k') eqn:E.
    + apply bytes_eqb_eq in E. subst. split; [discriminate | intros H; exfalso; apply H; now left].
    + apply bytes_eqb_neq in E. rewrite IH. split.
      * intros H [H1|H1]; [congruence | contradiction].
      * intros H H1. apply H. now right.
Qed.

Lemma alookup_some_in : forall k v p, alookup k p = Some v -> In (k, v) p.
Proof.
  intros k v. induction p as [|[k' v'] p IH]; cbn [alookup]; intros H; [discriminate|].
  destruct (bytes_eqb k k') eqn:E.
  - apply bytes_eqb_eq in E. inversion H; subst. now left.
  - right. now apply IH.
Qed.

Lemma alookup_in : forall k v p, NoDup (map fst p) -> In (k, v) p -> alookup k p = Some v.
Proof.
  intros k v. induction p as [|[k' v'] p IH]; intros Hnd Hin; [contradiction|].
  cbn [map fst] in Hnd. inversion Hnd as [|? ? Hn Hnd']; subst. cbn [alookup].
  destruct Hin as [E|Hin].
  - inversion E; subst. now rewrite bytes_eqb_refl.
  - destruct (bytes_eqb k k') eqn:E.
    + apply bytes_eqb_eq in E. subst. exfalso. apply Hn. now apply (in_map fst p (k', v)).
    + now apply IH.
Qed.

(* two listings of the same map answer every lookup alike *)
Lemma alookup_perm : forall p q k, NoDup (map fst p) -> Permutation p q -> alookup k p = alookup k q.
Proof.
  intros p q k Hnd Hperm.
  assert (Hnd' : NoDup (map fst q)).
  { apply (Permutation_NoDup (l := map fst p)); [now apply Permutation_map | exact Hnd]. }
  destruct (alookup k p) as [v|] eqn:E.
  - symmetry. apply alookup_in; [exact Hnd'|].
    apply (Permutation_in _ Hperm). now apply alookup_some_in.
  - symmetry. apply alookup_none. apply alookup_none in E. intros Hin. apply E.
    apply (Permutation_in _ (Permutation_sym (Permutation_map fst Hperm))). exact Hin.
Qed.

(* the same lookups on both sides: the same entries *)
Lemma alookup_ext_perm : forall p q, NoDup (map fst p) -> NoDup (map fst q) ->
  (forall k, alookup k p = alookup k q) -> Permutation p q.
Proof.
  intros p q Hp Hq H.
  assert (Hnd : forall l : list prior, NoDup (map fst l) -> NoDup l).
  { induction l as [|a l IH]; intros Hl; [constructor|].
    cbn [map] in Hl. inversion Hl as [|? ? Hn Hl']; subst. constructor; [|now apply IH].
    intros Hin. apply Hn. now apply in_map. }
  apply NoDup_Permutation; [now apply Hnd | now apply Hnd |].
  intros [k v]. split; intros Hin.
  - apply alookup_some_in. rewrite <- H. now apply alookup_in.
  - apply alookup_some_in. rewrite H. now apply alookup_in.
Qed.

(* ROUND TRIP.  Encode a delta, its entries visited in any order [p]; decode the bytes.  The
   decoder answers with a delta [q] that has exactly the entries of [p] (so the same key set, and
   for every key the same prior: [None] stays [None], [Some []] stays [Some []], a value of any
   length below 2^32 comes back byte for byte); [q] lists the erase group first, both groups in the
   order in which they were written. *)
Theorem delta_decode_encode : forall p, wf_priors p ->
  exists q, delta_decode (delta_encode p) = Ok q /\
            q = priors_of (groups_of p) /\
            Permutation q p /\
            NoDup (map fst q) /\
            (forall k, In k (map fst q) <-> In k (map fst p)) /\
            (forall k, alookup k q = alookup k p).
Proof.
  intros p Hwf. exists (priors_of (groups_of p)).
  pose proof (wf_priors_groups p Hwf) as Hg.
  pose proof (split_priors_perm p) as Hperm.
  destruct Hwf as (Hnd & _ & _).
  assert (Hndq : NoDup (map fst (priors_of (groups_of p)))).
  { apply (Permutation_NoDup (l := map fst p)); [|exact Hnd].
    apply Permutation_map. now apply Permutation_sym. }
  repeat split.
  - unfold delta_decode, delta_encode.
    rewrite <- (app_nil_r (encode_groups (groups_of p))).
    rewrite decode_encode_groups by exact Hg. reflexivity.
  - exact Hperm.
  - exact Hndq.
  - apply Permutation_in. now apply Permutation_map.
  - apply Permutation_in. apply Permutation_map. now apply Permutation_sym.
  - intros k. now apply alookup_perm.
Qed.

(* bytes behind the record do not change the verdict on an encoding *)
Theorem delta_decode_ignores_trailing : forall p t, wf_priors p ->
  delta_decode (delta_encode p ++ t) = delta_decode (delta_encode p).
Proof.
  intros p t Hwf. pose proof (wf_priors_groups p Hwf) as Hg. unfold delta_decode, delta_encode.
  rewrite decode_encode_groups by exact Hg.
  rewrite <- (app_nil_r (encode_groups (groups_of p))).
  rewrite decode_encode_groups by exact Hg. reflexivity.
Qed.

(* the order in which the HashMap is visited changes the bytes, not the decoded map *)
Theorem delta_decode_order : forall p p', wf_priors p -> Permutation p p' ->
  exists q q', delta_decode (delta_encode p) = Ok q /\ delta_decode (delta_encode p') = Ok q' /\
               Permutation q q' /\ forall k, alookup k q = alookup k q'.
Proof.
  intros p p' Hwf Hperm.
  assert (Hwf' : wf_priors p').
  { destruct Hwf as (Hnd & Hf & Hl). repeat split.
    - apply (Permutation_NoDup (l := map fst p)); [now apply Permutation_map | exact Hnd].
    - apply (Permutation_Forall Hperm). exact Hf.
    - now rewrite <- (Permutation_length Hperm). }
  destruct (delta_decode_encode p Hwf) as (q & Hq & _ & Hqp & Hqn & _ & Hql).
  destruct (delta_decode_encode p' Hwf') as (q' & Hq' & _ & Hqp' & _ & _ & Hql').
  exists q, q'. repeat split; try assumption.
  - eapply Permutation_trans; [exact Hqp|]. eapply Permutation_trans; [exact Hperm|].
    now apply Permutation_sym.
  - intros k. rewrite Hql, Hql'. apply alookup_perm; [now destruct Hwf | exact Hperm].
Qed.

(* INJECTIVITY.  Two deltas with the same encoding are the same map. *)
Theorem delta_encode_inj : forall p1 p2, wf_priors p1 -> wf_priors p2 ->
  delta_encode p1 = delta_encode p2 ->
  Permutation p1 p2 /\ forall k, alookup k p1 = alookup k p2.
Proof.
  intros p1 p2 H1 H2 E.
  destruct (delta_decode_encode p1 H1) as (q1 & Hq1 & _ & Hp1 & _ & _ & Hl1).
  destruct (delta_decode_encode p2 H2) as (q2 & Hq2 & _ & Hp2 & _ & _ & Hl2).
  rewrite E in Hq1. rewrite Hq1 in Hq2. inversion Hq2; subst q2.
  split.
  - eapply Permutation_trans; [apply Permutation_sym; exact Hp1 | exact Hp2].
  - intros k. now rewrite <- Hl1, <- Hl2.
Qed.

(* ... and the groups are even equal entry by entry, in order *)
Theorem encode_groups_inj : forall g1 g2, wf_groups g1 -> wf_groups g2 ->
  encode_groups g1 = encode_groups g2 -> g1 = g2.
Proof.
  intros g1 g2 H1 H2 E.
  pose proof (decode_encode_groups g1 [] H1) as D1.
  pose proof (decode_encode_groups g2 [] H2) as D2.
  rewrite E in D1. rewrite D1 in D2. now inversion D2.
Qed.

Lemma groups_of_priors_of : forall g, groups_of (priors_of g) = g.
Proof.
  intros [er re]. unfold groups_of, priors_of. cbn [g_erase g_reinstate].
  assert (Hre : split_priors (map (fun kv : list N * list N => (fst kv, Some (snd kv))) re) = ([], re)).
  { induction re as [|[k v] re IH]; cbn [map split_priors fst snd]; [reflexivity|]. now rewrite IH. }
  induction er as [|k er IH]; cbn [map app split_priors].
  - now rewrite Hre.
  - destruct (split_priors (map (fun k0 => (k0, None)) er ++ map (fun kv : list N * list N => (fst kv, Some (snd kv))) re)) as [e s].
    now inversion IH.
Qed.

(* the map-level reading of [delta_reencode]: a record that decodes is the encoding of the decoded
   delta visited in the decoded order, possibly followed by bytes that are ignored *)
Theorem delta_decode_reencode : forall bytes q, Forall byte bytes ->
  delta_decode bytes = Ok q ->
  NoDup (map fst q) /\ wf_groups (groups_of q) /\ exists r, delta_encode q ++ r = bytes.
Proof.
  intros bytes q Hb H. unfold delta_decode in H.
  apply bind_ok in H. destruct H as ([g r] & Hg & H). cbn [fst] in H. inversion H; subst.
  apply delta_reencode in Hg; [|exact Hb]. destruct Hg as [Henc Hwf].
  pose proof (groups_of_priors_of g) as Hgo.
  split; [|split].
  - rewrite priors_of_keys. now destruct Hwf as (_ & _ & Hnd & _).
  - now rewrite Hgo.
  - exists r. unfold delta_encode. now rewrite Hgo.
Qed.

(* ------------------------------------------------------------------------------------------- *)
(* non-vacuity: a delta with an erased key, an empty prior value and a long prior value          *)

Definition ex_key (b : N) : list N := repeat b 32.
Definition ex_long : list N := map (fun i => N.of_nat i mod 251) (seq 0 300).
(* visited in the order: long value, absent prior, empty value *)
Definition ex_delta : list prior := [(ex_key 3, Some ex_long); (ex_key 1, None); (ex_key 2, Some [])].

Theorem ex_delta_wf : wf_priors ex_delta.
Proof.
  unfold wf_priors, ex_delta. split; [|split].
  - cbn [map fst]. repeat constructor; cbn [In]; intros H;
      repeat (destruct H as [H|H]; [discriminate H|]); exact H.
  - repeat constructor; cbn [fst snd]; vm_compute; reflexivity.
  - vm_compute. reflexivity.
Qed.

(* the bytes: count 1, the erased key; count 2, key 3 with length 300 = 0x012c and the value,
   key 2 with length 0 and no value byte *)
Theorem ex_delta_layout :
  delta_encode ex_delta =
  [1; 0; 0; 0] ++ ex_key 1 ++ [2; 0; 0; 0] ++ ex_key 3 ++ [44; 1; 0; 0] ++ ex_long ++ ex_key 2 ++ [0; 0; 0; 0].
Proof. vm_compute. reflexivity. Qed.

Theorem ex_delta_roundtrip :
  delta_decode (delta_encode ex_delta) = Ok [(ex_key 1, None); (ex_key 3, Some ex_long); (ex_key 2, Some [])].
Proof. vm_compute. reflexivity. Qed.

(* absent prior, empty prior value and unknown key are three different answers *)
Theorem ex_delta_lookups : forall q, delta_decode (delta_encode ex_delta) = Ok q ->
  alookup (ex_key 1) q = Some None /\ alookup (ex_key 2) q = Some (Some []) /\
  alookup (ex_key 3) q = Some (Some ex_long) /\ alookup (ex_key 9) q = None.
Proof. intros q H. rewrite ex_delta_roundtrip in H. inversion H; subst. vm_compute. repeat split; reflexivity. Qed.

(* the seeded change C10-x3 (an empty prior value filed under "erase") is visible in the decoded map *)
Theorem ex_empty_value_is_not_erase :
  delta_decode (delta_encode [(ex_key 2, Some [])]) = Ok [(ex_key 2, Some [])] /\
  delta_decode (delta_encode [(ex_key 2, None)]) = Ok [(ex_key 2, None)] /\
  delta_encode [(ex_key 2, Some [])] <> delta_encode [(ex_key 2, None)].
Proof. vm_compute. repeat split; try reflexivity. discriminate. Qed.

(* every error of the decoder is reachable *)
Theorem ex_errors :
  delta_decode [1; 0; 0] = Err (DShort SEraseCount) /\
  delta_decode ([255; 255; 255; 255] ++ ex_key 1) = Err (DShort SEraseKey) /\
  delta_decode ([1; 0; 0; 0] ++ ex_key 1) = Err (DShort SReinstateCount) /\
  delta_decode ([0; 0; 0; 0; 1; 0; 0; 0] ++ [7; 7]) = Err (DShort SReinstateKey) /\
  delta_decode ([0; 0; 0; 0; 1; 0; 0; 0] ++ ex_key 1 ++ [5; 0]) = Err (DShort SValueLen) /\
  delta_decode ([0; 0; 0; 0; 1; 0; 0; 0] ++ ex_key 1 ++ [255; 255; 255; 255; 9]) = Err (DShort SValue) /\
  delta_decode ([2; 0; 0; 0] ++ ex_key 1 ++ ex_key 1 ++ [0; 0; 0; 0]) = Err (DDupErase (ex_key 1)) /\
  delta_decode ([1; 0; 0; 0] ++ ex_key 1 ++ [1; 0; 0; 0] ++ ex_key 1 ++ [0; 0; 0; 0]) = Err (DDupReinstate (ex_key 1)) /\
  (* the value is read before the key is looked up: short input wins over the duplicate *)
  delta_decode ([1; 0; 0; 0] ++ ex_key 1 ++ [1; 0; 0; 0] ++ ex_key 1 ++ [1; 0; 0; 0]) = Err (DShort SValue).
Proof. vm_compute. repeat split; reflexivity. Qed.
