(* Mirror of the page-count arithmetic of nomt/src/beatree/ops/overflow.rs
   (`needed_pages`, `total_needed_pages`).  A value too large for a leaf cell is cut into
   overflow pages of BODY_SIZE = PAGE_SIZE - 4 payload bytes; the first
   MAX_OVERFLOW_CELL_NODE_POINTERS page numbers live in the leaf cell, every further page
   number costs 4 payload bytes in one of the overflow pages.

   Numbers are `N`.  Rust computes over `usize` with overflow checks; `N` subtraction truncates
   at 0 where Rust would panic - `Overflow_proofs.total_needed_pages_no_underflow` shows that no
   subtraction of the function ever truncates, so the two agree. *)
From Coq Require Import NArith.
Open Scope N_scope.

Definition PAGE_SIZE : N := 4096.
Definition BODY_SIZE : N := PAGE_SIZE - 4.                     (* 4092 *)
Definition MAX_OVERFLOW_CELL_NODE_POINTERS : N := 15.
Definition MAX_PNS : N := BODY_SIZE / 4.                       (* 1023 *)

(* fn needed_pages(size) = (size + BODY_SIZE - 1) / BODY_SIZE *)
Definition needed_pages (size : N) : N := (size + BODY_SIZE - 1) / BODY_SIZE.

(* fn total_needed_pages(value_size) *)
Definition total_needed_pages (value_size : N) : N :=
  let needed_pages_raw_value := needed_pages value_size in
  if needed_pages_raw_value <=? MAX_OVERFLOW_CELL_NODE_POINTERS then needed_pages_raw_value
  else
    let bytes_left := needed_pages_raw_value * BODY_SIZE - value_size in
    let available_page_numbers := bytes_left / 4 in
    if needed_pages_raw_value <=? MAX_OVERFLOW_CELL_NODE_POINTERS + available_page_numbers
    then needed_pages_raw_value
    else
      let n := value_size + (needed_pages_raw_value - MAX_OVERFLOW_CELL_NODE_POINTERS) * 4
               - needed_pages_raw_value * BODY_SIZE in
      let required_additional_pages := (n + BODY_SIZE - 3) / (BODY_SIZE - 4) in
      needed_pages_raw_value + required_additional_pages.

(* The quantity `n` of the third branch (bytes of page numbers that do not fit into the slack of
   the last value page), 0 in the other two branches; used to state exactly when the formula
   allocates one page more than necessary. *)
Definition overflow_deficit (value_size : N) : N :=
  let np := needed_pages value_size in
  if np <=? MAX_OVERFLOW_CELL_NODE_POINTERS then 0
  else if np <=? MAX_OVERFLOW_CELL_NODE_POINTERS + (np * BODY_SIZE - value_size) / 4 then 0
  else value_size + (np - MAX_OVERFLOW_CELL_NODE_POINTERS) * 4 - np * BODY_SIZE.

(* capacity condition: [q] pages hold the value bytes and the [q - 15] out-of-cell pointers *)
Definition pages_fit (value_size q : N) : bool :=
  value_size + 4 * (q - MAX_OVERFLOW_CELL_NODE_POINTERS) <=? q * BODY_SIZE.
