(* Mirror of core/src/proof/multi_proof.rs, second half: terminal_contains, CommonSiblings
   (new / advance / pop_to / extend / pop_if_at_depth), the multi-proof verify_update and
   hash_and_compact_terminal.  Models only, no proofs.

   Every Rust panic site is an explicit [Panic] outcome (the Rust line is quoted next to it).
   Line numbers refer to /repo/core/src/proof/multi_proof.rs at commit d984855.

   Modelling choices (see also the comments in place):
   * Stacks ([CommonSiblings::bisection_stack], [CommonSiblings::stack], [pending_siblings]) have
     their top (= last element of the Rust Vec) at the head of the list.  [working_ops] is in
     Rust order.
   * [leaf_ops_spliced] / [build_trie] are the mirrors of BuildTrie.v.  The ops handed to
     leaf_ops_spliced are strictly ascending (enforced at :777 before they are collected), which is
     the assumption under which BuildTrie.splice mirrors the Rust binary search.
   * The dummy last item of the main loop is the separate function [verify_update_last]. *)
From Nomt Require Import Base Hash Trie Result PathProof BuildTrie MultiProof.

Section WithHasher.
  Variable H : Hasher.
  Variable KEYLEN : nat.   (* 256 in the implementation; only build_trie depends on it *)

  (* :607 MultiVerifyUpdateError (prefixed: VerifyUpdate.v already has OpsOutOfOrder ...).
     RootMismatch is never returned by the Rust function, nor by the model. *)
  Inductive multi_verify_update_error :=
  | MultiOpsOutOfOrder | MultiOpOutOfScope | MultiUpdateRootMismatch | MultiPathPrefixOfAnother.

  Notation err := multi_verify_update_error.
  Notation vmpath := verified_multi_path.
  Notation vmproof := (verified_multi_proof H).

  (* :618 terminal_contains *)
  Definition terminal_contains (terminal : vmpath) (key_path : key) : res err bool :=
    (* :619 [key_path[..terminal.depth]], [terminal.terminal.path()[..terminal.depth]] *)
    do a <- slice_to_res key_path (vm_depth terminal) ;;
    do b <- slice_to_res (term_path (vm_terminal terminal)) (vm_depth terminal) ;;
    Ok (key_eqb a b).

  (* ---------------------------------------------------------------------------------------- *)
  (* :628 CommonSiblings                                                                       *)
  Record common_siblings_t := {
    cs_bisection_stack : list verified_bisection;   (* top at the head *)
    cs_stack : list (nat * node H);                 (* top at the head *)
    cs_taken_siblings : nat;
    cs_terminal_index : nat;
    cs_bisection_index : nat
  }.

  (* :637 CommonSiblings::new *)
  Definition cs_new : common_siblings_t :=
    {| cs_bisection_stack := []; cs_stack := []; cs_taken_siblings := 0;
       cs_terminal_index := 0; cs_bisection_index := 0 |}.

  Fixpoint pop_while {A : Type} (p : A -> bool) (l : list A) : list A :=
    match l with
    | x :: l' => if p x then pop_while p l' else l
    | [] => []
    end.

  (* :679 CommonSiblings::pop_to *)
  Definition pop_to (self : common_siblings_t) (depth : nat) : common_siblings_t :=
    {| cs_bisection_stack := pop_while (fun b => Nat.leb depth (vb_start_depth b)) (cs_bisection_stack self);
       cs_stack := pop_while (fun e : nat * node H => Nat.leb depth (fst e)) (cs_stack self);
       cs_taken_siblings := cs_taken_siblings self;
       cs_terminal_index := cs_terminal_index self;
       cs_bisection_index := cs_bisection_index self |}.

  (* the body of the [for (i, sibling) in ... .iter().enumerate()] loop of extend *)
  Fixpoint push_enumerated (start_depth : nat) (sibs : list (node H)) (stack : list (nat * node H))
    : list (nat * node H) :=
    match sibs with
    | [] => stack
    | s :: sibs' => push_enumerated (S start_depth) sibs' ((start_depth, s) :: stack)
    end.

  (* :693 CommonSiblings::extend *)
  Definition extend (self : common_siblings_t) (start_depth end_ : nat) (siblings : list (node H))
    : res err common_siblings_t :=
    (* :694 [siblings[self.taken_siblings..end]] *)
    do sl <- slice_res siblings (cs_taken_siblings self) end_ ;;
    Ok {| cs_bisection_stack := cs_bisection_stack self;
          cs_stack := push_enumerated start_depth sl (cs_stack self);
          cs_taken_siblings := end_;
          cs_terminal_index := cs_terminal_index self;
          cs_bisection_index := cs_bisection_index self |}.

  (* :701 CommonSiblings::pop_if_at_depth *)
  Definition pop_if_at_depth (self : common_siblings_t) (depth : nat) : option (node H) * common_siblings_t :=
    match cs_stack self with
    | (d, n) :: stack' =>
        if Nat.eqb d depth
        then (Some n, {| cs_bisection_stack := cs_bisection_stack self;
                         cs_stack := stack';
                         cs_taken_siblings := cs_taken_siblings self;
                         cs_terminal_index := cs_terminal_index self;
                         cs_bisection_index := cs_bisection_index self |})
        else (None, self)
    | [] => (None, self)
    end.

  (* :651 the [while] loop of advance.  Fuel: every iteration that does not panic needs
     bisection_index < bisections.len() and increments it; fuel = bisections.len() + 1. *)
  Fixpoint advance_loop (fuel : nat) (proof : vmproof) (next_terminal : vmpath) (prune : bool)
           (self : common_siblings_t) : res err common_siblings_t :=
    if Nat.eqb (vm_unique_siblings_start next_terminal) (cs_taken_siblings self) then Ok self
    else
      match fuel with
      | O => Panic   (* out of fuel: unreachable, see above *)
      | S fuel' =>
          (* :652 [proof.bisections[self.bisection_index]] *)
          do next_bisection <- nth_res (vmp_bisections proof) (cs_bisection_index self) ;;
          let self := {| cs_bisection_stack := cs_bisection_stack self;
                         cs_stack := cs_stack self;
                         cs_taken_siblings := cs_taken_siblings self;
                         cs_terminal_index := cs_terminal_index self;
                         cs_bisection_index := cs_bisection_index self + 1 |} in
          (* :655 assert_eq!(next_bisection.common_siblings.start, self.taken_siblings) *)
          if negb (Nat.eqb (vb_common_siblings_start next_bisection) (cs_taken_siblings self)) then Panic
          else
            let self := if prune then pop_to self (vb_start_depth next_bisection) else self in
            (* :662 extend -> :694 *)
            do self <- extend self (vb_start_depth next_bisection + 1)
                              (vb_common_siblings_end next_bisection) (vmp_siblings proof) ;;
            let self := {| cs_bisection_stack := next_bisection :: cs_bisection_stack self;
                           cs_stack := cs_stack self;
                           cs_taken_siblings := cs_taken_siblings self;
                           cs_terminal_index := cs_terminal_index self;
                           cs_bisection_index := cs_bisection_index self |} in
            advance_loop fuel' proof next_terminal false self
      end.

  (* :647 CommonSiblings::advance *)
  Definition advance (self : common_siblings_t) (proof : vmproof) : res err common_siblings_t :=
    (* :648 [proof.inner[self.terminal_index]] *)
    do next_terminal <- nth_res (vmp_inner proof) (cs_terminal_index self) ;;
    do self <- advance_loop (S (length (vmp_bisections proof))) proof next_terminal true self ;;
    (* :670 [unique_siblings.end - unique_siblings.start] : usize underflow *)
    do terminal_n <- sub_res (vm_unique_siblings_end next_terminal)
                             (vm_unique_siblings_start next_terminal) ;;
    (* :672 [next_terminal.depth - terminal_n + 1] : usize underflow of the subtraction *)
    do d <- sub_res (vm_depth next_terminal) terminal_n ;;
    (* :671 extend -> :694 *)
    do self <- extend self (d + 1) (vm_unique_siblings_end next_terminal) (vmp_siblings proof) ;;
    Ok {| cs_bisection_stack := cs_bisection_stack self;
          cs_stack := cs_stack self;
          cs_taken_siblings := cs_taken_siblings self;
          cs_terminal_index := cs_terminal_index self + 1;
          cs_bisection_index := cs_bisection_index self |}.

  (* ---------------------------------------------------------------------------------------- *)
  (* :885 the [for bit in ...] loop of hash_and_compact_terminal; [bits] are the bits already
     reversed and cut to up_layers *)
  Fixpoint compact_loop (bits : list bool) (cur_node : node H) (cur_layer : nat)
           (pending_siblings : list (node H * nat)) (common_siblings : common_siblings_t)
    : res err (node H * list (node H * nat) * common_siblings_t) :=
    match bits with
    | [] => Ok (cur_node, pending_siblings, common_siblings)
    | bit :: bits' =>
        let from_common :=
          (* :900 common_siblings.pop_if_at_depth(cur_layer).unwrap() *)
          match pop_if_at_depth common_siblings cur_layer with
          | (Some s, cs') => Ok (s, pending_siblings, cs')
          | (None, _) => Panic
          end in
        do sel <-
           match pending_siblings with
           | (s, l) :: ps =>
               if Nat.eqb l cur_layer
               then (* :893 the popped common sibling is dropped, :895 pop().unwrap() cannot fail *)
                    Ok (s, ps, snd (pop_if_at_depth common_siblings cur_layer))
               else from_common
           | [] => from_common
           end ;;
        let '(sibling, pending_siblings, common_siblings) := sel in
        (* :903 *)
        let next :=
          match kind H cur_node, kind H sibling with
          | KTerm, KTerm => cur_node
          | KLeaf, KTerm => cur_node
          | KTerm, KLeaf => sibling
          | _, _ => if bit then hint H sibling cur_node else hint H cur_node sibling
          end in
        (* :927 [cur_layer -= 1] : cannot underflow (at most up_layers <= skip iterations), kept explicit *)
        do cur_layer' <- sub_res cur_layer 1 ;;
        compact_loop bits' next cur_layer' pending_siblings common_siblings
    end.

  (* :848 hash_and_compact_terminal; returns the new (pending_siblings, common_siblings) *)
  Definition hash_and_compact_terminal (pending_siblings : list (node H * nat))
             (terminal : vmpath) (next_terminal : option vmpath)
             (common_siblings : common_siblings_t) (ops : list (key * option value))
    : res err (list (node H * nat) * common_siblings_t) :=
    let leaf := as_leaf_option (vm_terminal terminal) in
    let skip := vm_depth terminal in
    do up_layers <-
       match next_terminal with
       | Some next_terminal =>
           let n := common (term_path (vm_terminal terminal)) (term_path (vm_terminal next_terminal)) in
           if Nat.eqb n skip then Err MultiPathPrefixOfAnother    (* :864 *)
           else sub_res skip (n + 1)                              (* :870 [skip - (n + 1)] : usize underflow *)
       | None => Ok skip
       end ;;
    let ops := leaf_ops_spliced leaf ops in
    (* :876 build_trie: its slicing panics ([skip..] with skip > 256, [skip..skip + leaf_depth]) *)
    do sub_root <-
       match build_trie H KEYLEN skip ops with
       | Ok n => Ok n
       | Err e => match e with end
       | Panic => Panic
       end ;;
    let end_layer := skip - up_layers in     (* :880 up_layers <= skip *)
    (* :885 [terminal.terminal.path()[..terminal.depth]] *)
    do path_bits <- slice_to_res (term_path (vm_terminal terminal)) (vm_depth terminal) ;;
    do r <- compact_loop (firstn up_layers (rev path_bits)) sub_root skip
                         pending_siblings common_siblings ;;
    let '(cur_node, pending_siblings, common_siblings) := r in
    Ok ((cur_node, end_layer) :: pending_siblings, common_siblings).

  (* ---------------------------------------------------------------------------------------- *)
  (* :720 verify_update                                                                        *)

  (* the mutable locals of verify_update *)
  Record vu_state := {
    st_pending_siblings : list (node H * nat);          (* top at the head *)
    st_last_key : option key;
    st_last_terminal_index : option nat;
    st_next_pending_terminal_index : option nat;
    st_working_ops : list (key * option value);
    st_common_siblings : common_siblings_t
  }.

  Definition unwrap_or {A : Type} (o : option A) (d : A) : A :=
    match o with Some a => a | None => d end.

  (* :784-762 find the terminal index of an operation.  [inner_from] is
     [proof.inner[next_terminal_index..]]: it is empty exactly when
     [proof.inner.len() <= next_terminal_index] (:785, :791). *)
  Fixpoint find_terminal (inner_from : list vmpath) (next_terminal_index : nat) (key : key)
    : res err nat :=
    match inner_from with
    | [] => Err MultiOpOutOfScope
    | t :: inner_from' =>
        do c <- terminal_contains t key ;;     (* :789 *)
        if c then Ok next_terminal_index
        else find_terminal inner_from' (S next_terminal_index) key
    end.

  (* :810 [for terminal_index in start..updated_index]; [n] = number of remaining iterations *)
  Fixpoint ingest_up_to_current (n : nat) (terminal_index : nat) (proof : vmproof)
           (pending_siblings : list (node H * nat)) (common_siblings : common_siblings_t)
    : res err (list (node H * nat) * common_siblings_t) :=
    match n with
    | O => Ok (pending_siblings, common_siblings)
    | S n' =>
        (* :811 [proof.inner[terminal_index]], :812 [proof.inner[terminal_index + 1]] *)
        do terminal <- nth_res (vmp_inner proof) terminal_index ;;
        do next_terminal <- nth_res (vmp_inner proof) (terminal_index + 1) ;;
        do common_siblings <- advance common_siblings proof ;;
        do r <- hash_and_compact_terminal pending_siblings terminal (Some next_terminal)
                                          common_siblings [] ;;
        ingest_up_to_current n' (S terminal_index) proof (fst r) (snd r)
    end.

  (* :774-809 one iteration of the main loop for a real (key, op) item *)
  Definition verify_update_step (proof : vmproof) (st : vu_state) (key : key) (op : option value)
    : res err vu_state :=
    (* :776 enforce key ordering: [key <= last_key] *)
    if match st_last_key st with Some last_key => negb (key_ltb last_key key) | None => false end
    then Err MultiOpsOutOfOrder
    else
      let next_terminal_index := unwrap_or (st_last_terminal_index st) 0 in
      do next_terminal_index <-
         find_terminal (skipn next_terminal_index (vmp_inner proof)) next_terminal_index key ;;
      (* :797 *)
      if match st_last_terminal_index st with None => true | Some x => Nat.eqb x next_terminal_index end
      then Ok {| st_pending_siblings := st_pending_siblings st;
                 st_last_key := Some key;
                 st_last_terminal_index := Some next_terminal_index;
                 st_next_pending_terminal_index := st_next_pending_terminal_index st;
                 st_working_ops := st_working_ops st ++ [(key, op)];
                 st_common_siblings := st_common_siblings st |}
      else
        match st_last_terminal_index st with
        | None => Panic    (* :804 unwrap(): unreachable, None was handled at :797 *)
        | Some updated_index =>
            let start := unwrap_or (st_next_pending_terminal_index st) 0 in
            (* :810 the range start..updated_index is empty when start >= updated_index *)
            do r <- ingest_up_to_current (updated_index - start) start proof
                                         (st_pending_siblings st) (st_common_siblings st) ;;
            let '(pending_siblings, common_siblings) := r in
            let ops := st_working_ops st in
            (* :828 [proof.inner[updated_index]] *)
            do terminal <- nth_res (vmp_inner proof) updated_index ;;
            (* :829 proof.inner.get(updated_index + 1) *)
            let next_terminal := nth_error (vmp_inner proof) (updated_index + 1) in
            do common_siblings <- advance common_siblings proof ;;
            do r <- hash_and_compact_terminal pending_siblings terminal next_terminal
                                              common_siblings ops ;;
            Ok {| st_pending_siblings := fst r;
                  st_last_key := Some key;
                  st_last_terminal_index := Some next_terminal_index;
                  st_next_pending_terminal_index := Some (updated_index + 1);
                  st_working_ops := [(key, op)];
                  st_common_siblings := snd r |}
        end.

  Fixpoint verify_update_loop (proof : vmproof) (ops : list (key * option value)) (st : vu_state)
    : res err vu_state :=
    match ops with
    | [] => Ok st
    | (key, op) :: ops' =>
        do st' <- verify_update_step proof st key op ;;
        verify_update_loop proof ops' st'
    end.

  (* :749 [for terminal_index in start..proof.inner.len()]; [n] = number of remaining iterations *)
  Fixpoint ingest_to_end (n : nat) (terminal_index : nat) (proof : vmproof)
           (updated_terminal_index : nat) (working_ops : list (key * option value))
           (pending_siblings : list (node H * nat)) (common_siblings : common_siblings_t)
    : res err (list (node H * nat) * common_siblings_t) :=
    match n with
    | O => Ok (pending_siblings, common_siblings)
    | S n' =>
        (* :750 [proof.inner.len() - 1] : inside the loop body inner is not empty, no underflow *)
        let next := if Nat.eqb terminal_index (length (vmp_inner proof) - 1)
                    then None else Some (terminal_index + 1) in
        (* :756 [proof.inner[terminal_index]], :757 [proof.inner[n]] : both in range here *)
        do terminal <- nth_res (vmp_inner proof) terminal_index ;;
        do next_terminal <-
           match next with
           | None => Ok None
           | Some n => do t <- nth_res (vmp_inner proof) n ;; Ok (Some t)
           end ;;
        let ops := if Nat.eqb terminal_index updated_terminal_index then working_ops else [] in
        do common_siblings <- advance common_siblings proof ;;
        do r <- hash_and_compact_terminal pending_siblings terminal next_terminal
                                          common_siblings ops ;;
        ingest_to_end n' (S terminal_index) proof updated_terminal_index working_ops (fst r) (snd r)
    end.

  (* :744-741 the iteration for the dummy last item *)
  Definition verify_update_last (proof : vmproof) (st : vu_state)
    : res err (list (node H * nat) * common_siblings_t) :=
    let updated_terminal_index := unwrap_or (st_last_terminal_index st) 0 in
    let start := unwrap_or (st_next_pending_terminal_index st) 0 in
    ingest_to_end (length (vmp_inner proof) - start) start proof updated_terminal_index
                  (st_working_ops st) (st_pending_siblings st) (st_common_siblings st).

  Definition verify_update (proof : vmproof) (ops : list (key * option value)) : res err (node H) :=
    match ops with
    | [] => Ok (vmp_root proof)    (* :724 *)
    | _ :: _ =>
        do st <- verify_update_loop proof ops
                   {| st_pending_siblings := []; st_last_key := None;
                      st_last_terminal_index := None; st_next_pending_terminal_index := None;
                      st_working_ops := []; st_common_siblings := cs_new |} ;;
        do r <- verify_update_last proof st ;;
        (* :845 pending_siblings.pop().map(|n| n.0).unwrap_or(proof.root) *)
        Ok (match fst r with (n, _) :: _ => n | [] => vmp_root proof end)
    end.
End WithHasher.

Arguments cs_bisection_stack {H}. Arguments cs_stack {H}. Arguments cs_taken_siblings {H}.
Arguments cs_terminal_index {H}. Arguments cs_bisection_index {H}.

(* ------------------------------------------------------------------------------------------ *)
(* Replays of unit tests of multi_proof.rs with the free hasher and 8-bit keys                  *)
Module MultiUpdateExamples.
  Import MultiProofExamples.

  Definition vu := verify_update FreeH 8.
  Definition bt (ops : list (key * value)) : res (multi_verify_update_error) (node FreeH) :=
    match build_trie FreeH 8 0 ops with Ok n => Ok n | Err e => match e with end | Panic => Panic end.
  Definition empty_verified : verified_multi_proof FreeH :=
    {| vmp_inner := [{| vm_terminal := TTerm []; vm_depth := 0;
                        vm_unique_siblings_start := 0; vm_unique_siblings_end := 0 |}];
       vmp_bisections := []; vmp_siblings := []; vmp_root := (FT : node FreeH) |}.
  (* from_path_proofs, then verify, as the tests do; a dummy proof if either fails *)
  Definition prove (proofs : list (path_proof FreeH)) (root : node FreeH) : verified_multi_proof FreeH :=
    match from_path_proofs FreeH proofs with
    | Ok m => match verify FreeH m root with Ok v => v | _ => empty_verified end
    | _ => empty_verified
    end.

  (* multi_proof_verify_empty *)
  Example verify_empty_update : vu empty_verified [] = Ok (FT : node FreeH).
  Proof. vm_compute. reflexivity. Qed.

  (* multi_proof_verify_empty_with_provided_updates *)
  Definition u0 := k [0;0;0;0;1;0;0;0].
  Definition u1 := k [0;0;0;1;0;0;0;0].
  Definition u2 := k [1;0;0;0;0;0;0;0].
  Example verify_empty_with_provided_updates :
    vu empty_verified [(u0, Some 1%N); (u1, Some 1%N); (u2, Some 1%N)]
    = bt [(u0, 1%N); (u1, 1%N); (u2, 1%N)].
  Proof. vm_compute. reflexivity. Qed.

  Example ops_out_of_order :
    vu empty_verified [(u1, Some 1%N); (u0, Some 1%N)] = Err MultiOpsOutOfOrder.
  Proof. vm_compute. reflexivity. Qed.

  (* multi_proof_verify_2_leaves_with_provided_updates *)
  Definition key_path_3' := k [1;0;1;0;0;0;0;0].
  Definition key_path_4' := k [0;0;0;0;0;1;0;0].
  Example verify_2_leaves_with_provided_updates :
    vu two_leafs_verified
       [(key_path_0', Some 2%N); (key_path_4', Some 1%N); (key_path_1', None); (key_path_3', Some 1%N)]
    = bt [(key_path_0', 2%N); (key_path_4', 1%N); (key_path_2', 2%N); (key_path_3', 1%N)].
  Proof. vm_compute. reflexivity. Qed.

  Example op_out_of_scope :
    vu two_leafs_verified [(key_path_2', Some 2%N)] = Err MultiOpOutOfScope.
  Proof. vm_compute. reflexivity. Qed.

  (* verify_update_terminal_with_multi_unique_siblings *)
  Definition k_alone := k [0;0;0;0;0;0;0;0].
  Definition k_neighbor := k [0;0;0;0;0;0;0;1].
  Definition k_other := k [1;0;0;0;0;0;0;0].
  Definition h_alone : node FreeH := FL k_alone 170%N.
  Definition h_neighbor : node FreeH := FL k_neighbor 187%N.
  Definition h_other : node FreeH := FL k_other 204%N.
  Definition j7 : node FreeH := FI h_alone h_neighbor.
  Definition j6 : node FreeH := FI j7 FT.
  Definition j5 : node FreeH := FI j6 FT.
  Definition j4 : node FreeH := FI j5 FT.
  Definition j3 : node FreeH := FI j4 FT.
  Definition j2 : node FreeH := FI j3 FT.
  Definition j1 : node FreeH := FI j2 FT.
  Definition jroot : node FreeH := FI j1 h_other.
  Example terminal_with_multi_unique_siblings :
    vu (prove [pp (TLeaf k_alone 170%N) [h_other; FT; FT; FT; FT; FT; FT; h_neighbor];
               pp (TLeaf k_other 204%N) [j1]] jroot)
       [(k_alone, Some 221%N)]
    = bt [(k_alone, 221%N); (k_neighbor, 187%N); (k_other, 204%N)].
  Proof. vm_compute. reflexivity. Qed.

  (* multi_proof_verify_4_leaves_with_long_bisections *)
  Definition c0 := k [0;0;0;0;0;0;0;0].
  Definition c1 := k [0;0;0;0;0;0;0;1].
  Definition c2 := k [0;0;0;0;1;0;0;0].
  Definition c3 := k [0;0;0;0;1;0;0;1].
  Definition tree (va vd : value) : node FreeH :=
    let i7a := FI (FL c0 va) (FL c1 1%N) in
    let i7b := FI (FL c2 1%N) (FL c3 vd) in
    let i6a := FI i7a (o 7) in
    let i6b := FI i7b (o 7) in
    let i5a := FI i6a (o 6) in
    let i5b := FI i6b (o 6) in
    let i4 := FI i5a i5b in
    FI (FI (FI (FI i4 (o 4)) (o 3)) (o 2)) (o 1).
  Definition i5a : node FreeH := FI (FI (FI (FL c0 1%N) (FL c1 1%N)) (o 7)) (o 6).
  Definition i5b : node FreeH := FI (FI (FI (FL c2 1%N) (FL c3 1%N)) (o 7)) (o 6).
  Definition long_bisections_proofs :=
    [pp (TLeaf c0 1%N) [o 1; o 2; o 3; o 4; i5b; o 6; o 7; FL c1 1%N];
     pp (TLeaf c1 1%N) [o 1; o 2; o 3; o 4; i5b; o 6; o 7; FL c0 1%N];
     pp (TLeaf c2 1%N) [o 1; o 2; o 3; o 4; i5a; o 6; o 7; FL c3 1%N];
     pp (TLeaf c3 1%N) [o 1; o 2; o 3; o 4; i5a; o 6; o 7; FL c2 1%N]].
  Example verify_4_leaves_with_long_bisections :
    vu (prove long_bisections_proofs (tree 1%N 1%N)) [(c0, Some 69%N); (c3, Some 69%N)]
    = Ok (tree 69%N 69%N).
  Proof. vm_compute. reflexivity. Qed.

  (* test_verify_update_underflow_prefix_paths: hand-made VerifiedMultiProof with one terminal
     path a prefix of the other *)
  Definition kp_prefix := k [1;0;1;0;0;0;0;0].
  Definition kp_longer := k [1;0;1;0;1;1;0;0].
  Definition prefix_proof : verified_multi_proof FreeH :=
    {| vmp_inner := [{| vm_terminal := TLeaf kp_prefix 1%N; vm_depth := 4;
                        vm_unique_siblings_start := 0; vm_unique_siblings_end := 0 |};
                     {| vm_terminal := TLeaf kp_longer 2%N; vm_depth := 6;
                        vm_unique_siblings_start := 0; vm_unique_siblings_end := 0 |}];
       vmp_bisections := []; vmp_siblings := [];
       vmp_root := (FI (FL kp_prefix 1%N) (FL kp_longer 2%N) : node FreeH) |}.
  Example underflow_prefix_paths :
    vu prefix_proof [(k [1;0;1;0;0;0;0;0], Some 0%N); (k [1;0;1;0;1;1;1;0], Some 0%N)]
    = Err MultiPathPrefixOfAnother.
  Proof. vm_compute. reflexivity. Qed.

  (* malformed hand-made VerifiedMultiProof: the unique sibling range points outside the sibling
     vector, [siblings[self.taken_siblings..end]] (:694) panics *)
  Example bad_sibling_range_panics :
    vu {| vmp_inner := [{| vm_terminal := TLeaf key_path_0' 0%N; vm_depth := 1;
                           vm_unique_siblings_start := 0; vm_unique_siblings_end := 1 |}];
          vmp_bisections := []; vmp_siblings := []; vmp_root := v0 |}
       [(key_path_0', Some 5%N)]
    = Panic.
  Proof. vm_compute. reflexivity. Qed.

  (* malformed hand-made VerifiedMultiProof: a terminal whose siblings are missing from the
     common-sibling stack, [pop_if_at_depth(cur_layer).unwrap()] (:900) panics *)
  Example missing_common_sibling_panics :
    vu {| vmp_inner := [{| vm_terminal := TLeaf key_path_0' 0%N; vm_depth := 1;
                           vm_unique_siblings_start := 0; vm_unique_siblings_end := 0 |}];
          vmp_bisections := []; vmp_siblings := []; vmp_root := v0 |}
       [(key_path_0', Some 5%N)]
    = Panic.
  Proof. vm_compute. reflexivity. Qed.

  (* malformed hand-made VerifiedMultiProof: depth beyond the key, [key_path[..terminal.depth]]
     (:619) panics *)
  Example depth_beyond_key_panics :
    vu {| vmp_inner := [{| vm_terminal := TLeaf key_path_0' 0%N; vm_depth := 9;
                           vm_unique_siblings_start := 0; vm_unique_siblings_end := 0 |}];
          vmp_bisections := []; vmp_siblings := []; vmp_root := v0 |}
       [(key_path_0', Some 5%N)]
    = Panic.
  Proof. vm_compute. reflexivity. Qed.
End MultiUpdateExamples.
