(* BranchBuild_proofs: the size the gauge computes is the size the builder writes.

   Notions
     dkeys b ops        the separators a list of operations denotes (base [b])
     gauge_inv g ks     the gauge [g] is what BranchGauge holds after ingesting the keys [ks]
     slens p c i ks     the stored lengths BranchNodeBuilder writes for [ks] (prefix [p], the first [c]
                        compressed, [i] = index of the first key)
     bwf b              the shape of a base node (node_wf, as propositions)
   Main results (end of the file)
     gauge_exact, built_node_fits, built_node_canonical, gauge_exact_refuted (the code before a637aba). *)
From Coq Require Import List Bool Arith NArith Lia.
From Nomt Require Import Base Base_proofs Image BitOps_proofs BranchBuild.
From Nomt Require BitOps.
Import ListNotations.
Local Open Scope N_scope.

(* ------------------------------------------------------------------------------------------- *)
(* separator_len, prefix_len                                                                     *)

Lemma last_one_spec : forall k i acc,
  last_one k i acc = if (last_set k =? 0)%nat then acc else i + N.of_nat (last_set k).
Proof.
  induction k as [|x k IH]; intros i acc; cbn [last_one last_set]; [reflexivity|].
  rewrite IH. destruct (last_set k) as [|m] eqn:E.
  - destruct x; cbn; lia.
  - cbn [Nat.eqb]. lia.
Qed.

Lemma sl_last_set : forall k, sl k = N.max 1 (N.of_nat (last_set k)).
Proof.
  intros k. unfold sl. rewrite last_one_spec.
  destruct (last_set k) eqn:E; cbn [Nat.eqb]; lia.
Qed.

(* for a key of 256 bits [sl] is the mirror of separator_len of BitOps.v *)
Lemma sl_spec : forall k, length k = 256%nat -> sl k = N.of_nat (BitOps.separator_len k).
Proof.
  intros k Hk. rewrite sl_last_set, (separator_len_last_set k Hk). lia.
Qed.

Lemma sl_pos : forall k, 1 <= sl k.
Proof. intros k. rewrite sl_last_set. lia. Qed.

Lemma sl_le : forall k, length k = 256%nat -> sl k <= 256.
Proof.
  intros k Hk. rewrite sl_last_set. pose proof (last_set_le k). lia.
Qed.

Lemma pl_le : forall a b, length b = 256%nat -> pl a b <= 256.
Proof.
  intros a b Hb. unfold pl. pose proof (BitOps_proofs.prefix_len_le a b). lia.
Qed.

Lemma pl_refl : forall a, length a = 256%nat -> pl a a = 256.
Proof. intros a Ha. unfold pl. rewrite BitOps_proofs.prefix_len_refl, Ha. reflexivity. Qed.

(* nth i k = true -> i < last_set k *)
Lemma last_set_gt : forall k i, nth i k false = true -> (i < last_set k)%nat.
Proof.
  induction k as [|x k IH]; intros i H; [destruct i; discriminate|].
  cbn [last_set]. destruct i as [|i]; cbn in H.
  - subst x. destruct (last_set k); lia.
  - specialize (IH i H). destruct (last_set k); lia.
Qed.

(* the separator of a larger key is longer than the common prefix *)
Lemma pl_lt_sl : forall a b,
  length a = length b -> key_ltb a b = true -> pl a b < sl b.
Proof.
  intros a b Hl Hlt. destruct (prefix_len_bit a b Hl Hlt) as [_ Hb].
  apply last_set_gt in Hb. rewrite sl_last_set. unfold pl. lia.
Qed.

(* a < b < c: a shares at least as much with b as with c *)
Lemma common_mono : forall a b c,
  key_ltb a b = true -> key_ltb b c = true -> (common a c <= common a b)%nat.
Proof.
  induction a as [|x a IH]; intros [|y b] [|z c] H1 H2; cbn in *; try lia; try discriminate.
  destruct x, y, z; cbn in *; try discriminate; try lia;
    (specialize (IH b c H1 H2); lia).
Qed.

Lemma pl_mono : forall a b c,
  key_ltb a b = true -> key_ltb b c = true -> pl a c <= pl a b.
Proof.
  intros a b c H1 H2. unfold pl. rewrite (prefix_len_spec a c), (prefix_len_spec a b).
  pose proof (common_mono a b c H1 H2). lia.
Qed.

(* ------------------------------------------------------------------------------------------- *)
(* lists                                                                                         *)

Lemma sumN_app : forall a b, sumN (a ++ b) = sumN a + sumN b.
Proof. induction a as [|x a IH]; intros b; cbn [sumN app]; [reflexivity|]. rewrite IH. lia. Qed.

Fixpoint asc (ks : list key) : Prop :=
  match ks with
  | a :: (b :: _) as r => key_ltb a b = true /\ asc r
  | _ => True
  end.

Lemma ascending_asc : forall ks, ascending ks = true <-> asc ks.
Proof.
  induction ks as [|a [|b r] IH]; cbn [ascending asc]; try tauto.
  rewrite andb_true_iff, IH. tauto.
Qed.

Lemma asc_tail : forall a r, asc (a :: r) -> asc r.
Proof. intros a [|b r] H; cbn in *; tauto. Qed.

Lemma asc_head_lt : forall a r x, asc (a :: r) -> In x r -> key_ltb a x = true.
Proof.
  intros a r. revert a. induction r as [|b r IH]; intros a x H Hin; [contradiction|].
  cbn [asc] in H. destruct H as [Hab Hr]. destruct Hin as [->|Hin]; [exact Hab|].
  eapply key_ltb_trans; [exact Hab|]. apply IH; assumption.
Qed.

Lemma asc_app_l : forall a b, asc (a ++ b) -> asc a.
Proof.
  induction a as [|x [|y a] IH]; intros b H; cbn [asc app] in *; try tauto.
  destruct H as [H1 H2]. split; [exact H1|]. apply (IH b). exact H2.
Qed.

Lemma asc_app_r : forall a b, asc (a ++ b) -> asc b.
Proof.
  induction a as [|x a IH]; intros b H; [exact H|].
  apply IH. eapply asc_tail. exact H.
Qed.

(* in an ascending list, the keys strictly between the first and position j *)
Lemma asc_nth_lt : forall ks i j,
  asc ks -> (i < j)%nat -> (j < length ks)%nat -> key_ltb (nth i ks []) (nth j ks []) = true.
Proof.
  induction ks as [|a r IH]; intros i j H Hij Hj; [cbn in Hj; lia|].
  destruct j as [|j]; [lia|]. cbn [length] in Hj.
  destruct i as [|i].
  - cbn [nth]. apply (asc_head_lt a r); [exact H|]. apply nth_In. lia.
  - cbn [nth]. apply IH; [eapply asc_tail; exact H|lia|lia].
Qed.

(* ------------------------------------------------------------------------------------------- *)
(* stored lengths                                                                                *)

Fixpoint slens (p : N) (c i : nat) (ks : list key) : list N :=
  match ks with
  | [] => []
  | k :: r => canon_len p (i <? c)%nat k :: slens p c (S i) r
  end.

Lemma slens_app : forall p c i a b,
  slens p c i (a ++ b) = slens p c i a ++ slens p c (i + length a) b.
Proof.
  intros p c i a. revert i. induction a as [|x a IH]; intros i b; cbn [slens app length].
  - rewrite Nat.add_0_r. reflexivity.
  - rewrite IH. do 3 f_equal. lia.
Qed.

Lemma slens_length : forall p c i ks, length (slens p c i ks) = length ks.
Proof. intros p c i ks. revert i. induction ks as [|k r IH]; intros i; cbn; [reflexivity|]. rewrite IH. reflexivity. Qed.

(* the keys from position 1 on that are compressed are not shorter than the prefix *)
Definition lower_bound (p : N) (c : nat) (ks : list key) : Prop :=
  forall i, (1 <= i)%nat -> (i < c)%nat -> (i < length ks)%nat -> p <= sl (nth i ks []).

(* sum of the stored lengths of the keys behind the first one *)
Lemma slens_tail_sum : forall p c i r,
  (1 <= i)%nat ->
  (forall j, (j < length r)%nat -> (i + j < c)%nat -> p <= sl (nth j r [])) ->
  sumN (slens p c i r) + N.of_nat (Nat.min (c - i) (length r)) * p = sumN (map sl r).
Proof.
  intros p c i r. revert i. induction r as [|k r IH]; intros i Hi Hlb; cbn [slens sumN map length].
  - rewrite Nat.min_0_r. lia.
  - assert (Hr : sumN (slens p c (S i) r) + N.of_nat (Nat.min (c - S i) (length r)) * p = sumN (map sl r)).
    { apply IH; [lia|]. intros j Hj Hc. apply (Hlb (S j)); cbn [length]; lia. }
    unfold canon_len. destruct (i <? c)%nat eqn:E.
    + apply Nat.ltb_lt in E.
      assert (Hk : p <= sl k) by (apply (Hlb 0%nat); cbn [length]; lia).
      replace (Nat.min (c - i) (S (length r))) with (S (Nat.min (c - S i) (length r))) by lia.
      rewrite Nat2N.inj_succ, N.mul_succ_l. lia.
    + apply Nat.ltb_ge in E.
      replace (Nat.min (c - i) (S (length r))) with 0%nat by lia.
      replace (Nat.min (c - S i) (length r)) with 0%nat in Hr by lia. lia.
Qed.

(* compressed_separator_range_size is the sum of what the builder stores, and its subtraction does
   not underflow *)
Lemma csize_exact : forall p c k0 r,
  (1 <= c)%nat -> (c <= S (length r))%nat -> lower_bound p c (k0 :: r) ->
  csize (sl k0) c (sumN (map sl r)) p = sumN (slens p c 0 (k0 :: r))
  /\ N.of_nat (c - 1) * p <= (sl k0 - p) + sumN (map sl r).
Proof.
  intros p c k0 r Hc1 Hc2 Hlb.
  assert (Hr : sumN (slens p c 1 r) + N.of_nat (Nat.min (c - 1) (length r)) * p = sumN (map sl r)).
  { apply slens_tail_sum; [lia|]. intros j Hj Hjc. apply (Hlb (S j)); cbn [length]; lia. }
  replace (Nat.min (c - 1) (length r)) with (c - 1)%nat in Hr by lia.
  unfold csize. cbn [slens sumN]. unfold canon_len.
  replace (0 <? c)%nat with true by (symmetry; apply Nat.ltb_lt; lia).
  split; lia.
Qed.

(* the lower bound follows from the order of the keys when the prefix is shared with the last
   compressed key *)
Lemma lower_bound_asc : forall ks c,
  asc ks -> (forall k, In k ks -> length k = 256%nat) -> (1 <= c)%nat -> (c <= length ks)%nat ->
  lower_bound (pl (hd [] ks) (nth (c - 1) ks [])) c ks.
Proof.
  intros ks c Hasc Hlen Hc1 Hc2 i Hi1 Hic Hil.
  destruct ks as [|k0 r]; [cbn in Hil; lia|]. cbn [hd].
  assert (H0i : key_ltb k0 (nth i (k0 :: r) []) = true).
  { apply (asc_nth_lt (k0 :: r) 0 i); [exact Hasc|lia|exact Hil]. }
  assert (Hli : length k0 = length (nth i (k0 :: r) [])).
  { rewrite (Hlen k0) by (left; reflexivity). symmetry. apply Hlen. apply nth_In. exact Hil. }
  pose proof (pl_lt_sl _ _ Hli H0i) as Hlt.
  destruct (Nat.eq_dec i (c - 1)) as [->|Hne]; [lia|].
  assert (Hic' : key_ltb (nth i (k0 :: r) []) (nth (c - 1) (k0 :: r) []) = true).
  { apply asc_nth_lt; [exact Hasc|lia|lia]. }
  pose proof (pl_mono _ _ _ H0i Hic'). lia.
Qed.

Lemma lower_bound_one : forall p ks, lower_bound p 1 ks.
Proof. intros p ks i H1 H2. lia. Qed.

(* ------------------------------------------------------------------------------------------- *)
(* ranges of a base node                                                                         *)

Definition items_range (b : bnode) (s e : nat) : list bitem := firstn (e - s) (skipn s (bn_items b)).
Definition ckeys (b : bnode) (s e : nat) : list key := map it_key (items_range b s e).

Lemma skipn_nth_cons : forall (A : Type) (l : list A) s d,
  (s < length l)%nat -> skipn s l = nth s l d :: skipn (S s) l.
Proof.
  intros A l. induction l as [|x l IH]; intros s d Hs; [cbn in Hs; lia|].
  destruct s as [|s]; [reflexivity|]. cbn [skipn nth]. apply IH. cbn in Hs. lia.
Qed.

Lemma items_range_nil : forall b s e, (e <= s)%nat -> items_range b s e = [].
Proof. intros b s e H. unfold items_range. replace (e - s)%nat with 0%nat by lia. reflexivity. Qed.

Lemma items_range_cons : forall b s e,
  (s < e)%nat -> (s < bn_n b)%nat -> items_range b s e = bitem_at b s :: items_range b (S s) e.
Proof.
  intros b s e Hse Hs. unfold items_range, bitem_at.
  rewrite (skipn_nth_cons _ (bn_items b) s ditem Hs).
  replace (e - s)%nat with (S (e - S s)) by lia. reflexivity.
Qed.

Lemma items_range_app : forall b s m e,
  (s <= m)%nat -> (m <= e)%nat -> items_range b s e = items_range b s m ++ items_range b m e.
Proof.
  intros b s m e H1 H2. unfold items_range.
  replace (e - s)%nat with ((m - s) + (e - m))%nat by lia.
  rewrite firstn_add. f_equal. rewrite <- skipn_add. do 2 f_equal. lia.
Qed.

Lemma items_range_length : forall b s e, (e <= bn_n b)%nat -> length (items_range b s e) = (e - s)%nat.
Proof.
  intros b s e He. unfold items_range. rewrite firstn_length, skipn_length. unfold bn_n in He. lia.
Qed.

Lemma ckeys_length : forall b s e, (e <= bn_n b)%nat -> length (ckeys b s e) = (e - s)%nat.
Proof. intros. unfold ckeys. rewrite map_length. apply items_range_length. assumption. Qed.

Lemma ckeys_cons : forall b s e,
  (s < e)%nat -> (s < bn_n b)%nat -> ckeys b s e = bkey b s :: ckeys b (S s) e.
Proof. intros b s e H1 H2. unfold ckeys. rewrite (items_range_cons b s e H1 H2). reflexivity. Qed.

Lemma ckeys_app : forall b s m e,
  (s <= m)%nat -> (m <= e)%nat -> ckeys b s e = ckeys b s m ++ ckeys b m e.
Proof. intros b s m e H1 H2. unfold ckeys. rewrite (items_range_app b s m e H1 H2), map_app. reflexivity. Qed.

Lemma ckeys_nil : forall b s e, (e <= s)%nat -> ckeys b s e = [].
Proof. intros. unfold ckeys. rewrite items_range_nil by assumption. reflexivity. Qed.

Lemma ckeys_one : forall b s, (s < bn_n b)%nat -> ckeys b s (S s) = [bkey b s].
Proof. intros b s H. rewrite ckeys_cons by lia. rewrite ckeys_nil by lia. reflexivity. Qed.

Lemma ckeys_nth : forall b s e i,
  (e <= bn_n b)%nat -> (i < e - s)%nat -> nth i (ckeys b s e) [] = bkey b (s + i).
Proof.
  intros b s e i He. revert s. induction i as [|i IH]; intros s Hi.
  - rewrite ckeys_cons by lia. cbn [nth]. f_equal. lia.
  - rewrite ckeys_cons by lia. cbn [nth]. rewrite IH by lia. f_equal. lia.
Qed.

Lemma ckeys_all : forall b, ckeys b 0 (bn_n b) = map it_key (bn_items b).
Proof.
  intros b. unfold ckeys, items_range, bn_n. rewrite Nat.sub_0_r. cbn [skipn].
  rewrite firstn_all. reflexivity.
Qed.

Lemma bkey_nth : forall b i, bkey b i = nth i (map it_key (bn_items b)) [].
Proof.
  intros b i. unfold bkey, bitem_at. change ([] : key) with (it_key ditem).
  rewrite map_nth. reflexivity.
Qed.

(* ------------------------------------------------------------------------------------------- *)
(* the shape of a base node                                                                      *)

Record bwf (b : bnode) : Prop := mkBwf {
  bwf_pc : (bn_pc b <= bn_n b)%nat;
  bwf_plen : bn_plen b <= 256;
  bwf_len : forall i, (i < bn_n b)%nat -> length (bkey b i) = 256%nat;
  bwf_asc : asc (map it_key (bn_items b));
  bwf_canon : forall i, (i < bn_n b)%nat ->
              it_len (bitem_at b i) = canon_len (bn_plen b) (i <? bn_pc b)%nat (bkey b i);
  bwf_lb : forall i, (1 <= i)%nat -> (i < bn_pc b)%nat -> bn_plen b <= sl (bkey b i)
}.

Lemma canon_from_nth : forall p pc items off i,
  canon_from p pc off items = true -> (i < length items)%nat ->
  it_len (nth i items ditem) = canon_len p (off + i <? pc)%nat (it_key (nth i items ditem)).
Proof.
  intros p pc items. induction items as [|it r IH]; intros off i H Hi; [cbn in Hi; lia|].
  cbn [canon_from] in H. apply andb_true_iff in H. destruct H as [H1 H2].
  destruct i as [|i].
  - cbn [nth]. rewrite Nat.add_0_r. apply N.eqb_eq. exact H1.
  - cbn [nth]. replace (off + S i)%nat with (S off + i)%nat by lia. apply IH; [exact H2|cbn in Hi; lia].
Qed.

Lemma node_wf_bwf : forall b, node_wf b = true -> bwf b.
Proof.
  intros b H. unfold node_wf in H.
  repeat (apply andb_true_iff in H; destruct H as [H ?]).
  rename H0 into Hcanon, H1 into Hshare, H2 into Hasc, H3 into Hk256, H4 into Hplen, H5 into Hpc.
  apply Nat.leb_le in H. apply Nat.leb_le in Hpc. apply N.leb_le in Hplen.
  apply ascending_asc in Hasc.
  assert (Hlen : forall i, (i < bn_n b)%nat -> length (bkey b i) = 256%nat).
  { intros i Hi. unfold keys256 in Hk256. rewrite forallb_forall in Hk256.
    apply Nat.eqb_eq. apply Hk256. unfold bitem_at. apply nth_In. exact Hi. }
  constructor; try assumption.
  - intros i Hi. unfold canonical in Hcanon. unfold bkey, bitem_at.
    apply (canon_from_nth _ _ _ 0%nat i Hcanon Hi).
  - intros i Hi1 Hipc. unfold shares_prefix in Hshare.
    assert (Hlt : key_ltb (bkey b 0) (bkey b i) = true).
    { rewrite !bkey_nth. apply asc_nth_lt; [exact Hasc|lia|rewrite map_length; unfold bn_n in Hpc; lia]. }
    assert (Hl : length (bkey b 0) = length (bkey b i)) by (rewrite !Hlen by lia; reflexivity).
    destruct (bn_items b) as [|it0 r] eqn:Eit; [unfold bn_n in Hpc; rewrite Eit in Hpc; cbn in Hpc; lia|].
    rewrite forallb_forall in Hshare.
    assert (Hin : In (bitem_at b i) (firstn (bn_pc b) (it0 :: r))).
    { unfold bitem_at. rewrite Eit.
      rewrite <- (firstn_skipn (bn_pc b) (it0 :: r)) at 1.
      rewrite app_nth1 by (rewrite firstn_length; unfold bn_n in Hpc; rewrite Eit in Hpc; lia).
      apply nth_In. rewrite firstn_length. unfold bn_n in Hpc. rewrite Eit in Hpc. lia. }
    specialize (Hshare _ Hin). apply N.leb_le in Hshare.
    assert (H0 : it_key it0 = bkey b 0). { unfold bkey, bitem_at. rewrite Eit. reflexivity. }
    rewrite H0 in Hshare. fold (bkey b i) in Hshare.
    pose proof (pl_lt_sl _ _ Hl Hlt). lia.
Qed.

(* uncompressed_separator_range_size on the cells of a canonical node is the sum of the
   separator lengths of the range *)
Lemma range_rest_sum : forall b cnt s,
  bwf b -> (1 <= s)%nat -> (s + cnt <= bn_pc b)%nat ->
  sumN (map it_len (items_range b s (s + cnt))) + bn_plen b * N.of_nat cnt
  = sumN (map sl (ckeys b s (s + cnt))).
Proof.
  intros b cnt. induction cnt as [|cnt IH]; intros s Hb Hs Hpc.
  - rewrite Nat.add_0_r, ckeys_nil, items_range_nil by lia. cbn. lia.
  - pose proof (bwf_pc b Hb) as Hpcn.
    rewrite ckeys_cons, items_range_cons by lia. cbn [map sumN].
    replace (s + S cnt)%nat with (S s + cnt)%nat by lia.
    specialize (IH (S s) Hb ltac:(lia) ltac:(lia)).
    rewrite (bwf_canon b Hb s) by lia.
    replace (s <? bn_pc b)%nat with true by (symmetry; apply Nat.ltb_lt; lia).
    unfold canon_len. pose proof (bwf_lb b Hb s ltac:(lia) ltac:(lia)).
    rewrite Nat2N.inj_succ, N.mul_succ_r. lia.
Qed.

Lemma usize_exact : forall b s e,
  bwf b -> (s < e)%nat -> (e <= bn_pc b)%nat ->
  usize (bn_plen b) (range_len b s e) (e - s) (sl (bkey b s)) = sumN (map sl (ckeys b s e)).
Proof.
  intros b s e Hb Hse He. pose proof (bwf_pc b Hb) as Hpcn.
  unfold usize, range_len. fold (items_range b s e).
  rewrite ckeys_cons, items_range_cons by lia. cbn [map sumN].
  pose proof (range_rest_sum b (e - S s) (S s) Hb ltac:(lia) ltac:(lia)) as Hr.
  replace (S s + (e - S s))%nat with e in Hr by lia.
  rewrite (bwf_canon b Hb s) by lia.
  replace (s <? bn_pc b)%nat with true by (symmetry; apply Nat.ltb_lt; lia).
  unfold canon_len.
  replace (e - s)%nat with (S (e - S s)) by lia.
  rewrite Nat2N.inj_succ, N.mul_succ_r. lia.
Qed.

(* ------------------------------------------------------------------------------------------- *)
(* the gauge                                                                                     *)

(* the gauge after ingesting [ks], given its prefix_compressed and prefix_len *)
Definition gauge_of (ks : list key) (pc : option nat) (p : N) : gauge :=
  match ks with
  | [] => g0
  | k0 :: r => mkG (Some (k0, sl k0)) p (sumN (map sl r)) pc (length ks)
  end.

(* prefix_len: shared by the first and the last compressed key; a single key ingested on its own has
   its separator_len, a single key ingested as a chunk prefix_len(k, k) *)
Definition plen_rel (p : N) (ks : list key) (c : nat) : Prop :=
  p = pl (hd [] ks) (nth (c - 1) ks []) \/ (c = 1%nat /\ p = sl (hd [] ks)).

Definition gauge_inv (g : gauge) (ks : list key) : Prop :=
  g = gauge_of ks (g_pc g) (g_plen g) /\
  (ks <> [] ->
   plen_rel (g_plen g) ks (pc_items g)
   /\ match g_pc g with Some c => (1 <= c)%nat /\ (c <= length ks)%nat | None => True end).

Lemma gauge_inv_nil : forall g, gauge_inv g [] -> g = g0.
Proof. intros g [H _]. exact H. Qed.

Lemma gauge_inv_g0 : gauge_inv g0 [].
Proof. split; [reflexivity|]. intros H. contradiction. Qed.

Lemma gauge_inv_n : forall g ks, gauge_inv g ks -> g_n g = length ks.
Proof. intros g ks [H _]. rewrite H. destruct ks; reflexivity. Qed.

Lemma gauge_inv_pc_items : forall g ks, gauge_inv g ks -> ks <> [] ->
  (1 <= pc_items g)%nat /\ (pc_items g <= length ks)%nat.
Proof.
  intros g ks Hg Hne. pose proof (gauge_inv_n g ks Hg) as Hn.
  destruct Hg as [_ H]. specialize (H Hne). destruct H as [_ H].
  unfold pc_items. destruct (g_pc g) as [c|]; [exact H|].
  destruct ks; [contradiction|]. cbn [length] in *. lia.
Qed.

Lemma hd_app_ne : forall (ks r : list key), ks <> [] -> hd [] (ks ++ r) = hd [] ks.
Proof. intros [|k ks] r H; [contradiction|reflexivity]. Qed.

Lemma gauge_of_cons_app : forall k0 r x pc p,
  gauge_of ((k0 :: r) ++ x) pc p
  = mkG (Some (k0, sl k0)) p (sumN (map sl r) + sumN (map sl x)) pc (S (length r + length x)).
Proof.
  intros. cbn [app gauge_of]. rewrite map_app, sumN_app. cbn [length]. rewrite app_length. reflexivity.
Qed.

Lemma ingest_key_inv : forall g ks k,
  gauge_inv g ks -> gauge_inv (ingest_key g k (sl k)) (ks ++ [k]).
Proof.
  intros g ks k Hg. destruct ks as [|k0 r].
  - apply gauge_inv_nil in Hg. subst g. cbn. split; [reflexivity|]. intros _.
    split; [|exact I]. right. split; reflexivity.
  - destruct Hg as [Hg Hr]. specialize (Hr ltac:(discriminate)). destruct Hr as [Hp Hc].
    rewrite Hg in *. cbn [gauge_of g_pc g_plen] in *.
    unfold ingest_key. cbn [g_first g_pc g_plen g_sum g_n].
    split.
    + rewrite gauge_of_cons_app. cbn [g_pc g_plen map sumN length]. f_equal; lia.
    + intros _. unfold pc_items in *. cbn [g_pc g_n g_plen] in *.
      destruct (g_pc g) as [c|].
      * split; [|rewrite app_length; cbn [length] in *; lia].
        destruct Hp as [Hp|[Hc1 Hp]]; [left|right; split; [exact Hc1|exact Hp]].
        rewrite Hp. rewrite hd_app_ne by discriminate. f_equal.
        rewrite app_nth1; [reflexivity|cbn [length] in *; lia].
      * split; [|exact I]. left. rewrite hd_app_ne by discriminate. cbn [hd]. f_equal.
        replace (S (length (k0 :: r)) - 1)%nat with (length (k0 :: r)) by lia.
        rewrite app_nth2 by lia. rewrite Nat.sub_diag. reflexivity.
Qed.

Lemma ingest_chunk_inv : forall g ks b s e sum,
  gauge_inv g ks -> (s < e)%nat -> (e <= bn_n b)%nat -> sum = sumN (map sl (ckeys b s e)) ->
  gauge_inv (ingest_chunk g b s e sum) (ks ++ ckeys b s e).
Proof.
  intros g ks b s e sum Hg Hse He Hsum.
  assert (Hlast : nth (e - s - 1) (ckeys b s e) [] = bkey b (e - 1)).
  { rewrite ckeys_nth by lia. f_equal. lia. }
  assert (Hlen : length (ckeys b s e) = (e - s)%nat) by (apply ckeys_length; exact He).
  destruct ks as [|k0 r].
  - apply gauge_inv_nil in Hg. subst g. unfold ingest_chunk. cbn [g0 g_first g_pc g_sum g_n app].
    rewrite ckeys_cons in * by lia. cbn [map sumN] in Hsum. cbn [length] in Hlen.
    split.
    + cbn [gauge_of g_pc g_plen]. f_equal; [lia|cbn [length]; lia].
    + intros _. split; [|exact I]. left. unfold pc_items. cbn [g_pc g_n g_plen hd].
      rewrite Hlast. reflexivity.
  - destruct Hg as [Hg Hr]. specialize (Hr ltac:(discriminate)). destruct Hr as [Hp Hc].
    rewrite Hg in *. cbn [gauge_of g_pc g_plen] in *.
    unfold ingest_chunk. cbn [g_first g_pc g_plen g_sum g_n].
    split.
    + rewrite gauge_of_cons_app. cbn [g_pc g_plen length]. f_equal; lia.
    + intros _. unfold pc_items in *. cbn [g_pc g_n g_plen] in *.
      destruct (g_pc g) as [c|].
      * split; [|rewrite app_length; cbn [length] in *; lia].
        destruct Hp as [Hp|[Hc1 Hp]]; [left|right; split; [exact Hc1|exact Hp]].
        rewrite Hp. rewrite hd_app_ne by discriminate. f_equal.
        rewrite app_nth1; [reflexivity|cbn [length] in *; lia].
      * split; [|exact I]. left. rewrite hd_app_ne by discriminate. cbn [hd]. f_equal.
        rewrite app_nth2 by (cbn [length]; lia).
        replace (length (k0 :: r) + (e - s) - 1 - length (k0 :: r))%nat with (e - s - 1)%nat by lia.
        symmetry. exact Hlast.
Qed.

Lemma stop_inv : forall g ks,
  gauge_inv g ks -> ks <> [] -> g_pc g = None -> gauge_inv (stop_compression g) ks.
Proof.
  intros g ks Hg Hne Hpc. pose proof (gauge_inv_n g ks Hg) as Hn.
  destruct Hg as [Hg Hr]. specialize (Hr Hne). destruct Hr as [Hp _].
  unfold pc_items in Hp. rewrite Hpc in Hp.
  destruct ks as [|k0 r]; [contradiction|].
  destruct g as [f p sm pc n]. cbn [g_pc g_plen g_n gauge_of] in *. subst pc.
  injection Hg as Hf Hs Hn2.
  split.
  - unfold stop_compression. cbn [g_first g_plen g_sum g_n g_pc gauge_of]. subst f sm. rewrite <- Hn.
    reflexivity.
  - intros _. unfold pc_items, stop_compression. cbn [g_pc g_plen g_n].
    split; [exact Hp|]. cbn [length] in *. lia.
Qed.

(* what the gauge reports is the body size of the node the builder writes: cells, prefix and stored
   lengths, node pointers *)
Lemma body_exact : forall g ks,
  gauge_inv g ks -> ks <> [] -> lower_bound (g_plen g) (pc_items g) ks ->
  g_body g = body_size (g_plen g) (sumN (slens (g_plen g) (pc_items g) 0 ks)) (length ks)
  /\ total_len g (g_plen g) = sumN (slens (g_plen g) (pc_items g) 0 ks)
  /\ match g_first g with
     | Some (_, fl) => N.of_nat (pc_items g - 1) * g_plen g <= (fl - g_plen g) + g_sum g
     | None => False
     end.
Proof.
  intros g ks Hg Hne Hlb.
  destruct (gauge_inv_pc_items g ks Hg Hne) as [Hc1 Hc2].
  pose proof (gauge_inv_n g ks Hg) as Hn.
  destruct Hg as [Hg _]. destruct ks as [|k0 r]; [contradiction|].
  cbn [length] in Hc2.
  destruct (csize_exact (g_plen g) (pc_items g) k0 r Hc1 Hc2 Hlb) as [He Hu].
  assert (Hf : g_first g = Some (k0, sl k0)) by (rewrite Hg; reflexivity).
  assert (Hs : g_sum g = sumN (map sl r)) by (rewrite Hg; reflexivity).
  unfold g_body, total_len. rewrite Hf, Hs, Hn. rewrite He. repeat split. exact Hu.
Qed.

Lemma gauge_lb : forall g ks,
  gauge_inv g ks -> ks <> [] -> asc ks -> (forall k, In k ks -> length k = 256%nat) ->
  lower_bound (g_plen g) (pc_items g) ks.
Proof.
  intros g ks Hg Hne Hasc Hlen.
  destruct (gauge_inv_pc_items g ks Hg Hne) as [Hc1 Hc2].
  destruct Hg as [_ Hr]. specialize (Hr Hne). destruct Hr as [[Hp|[Hc Hp]] _].
  - rewrite Hp. apply lower_bound_asc; assumption.
  - rewrite Hc. apply lower_bound_one.
Qed.

(* two gauges for the same keys differ at most in the prefix length of a single key *)
Lemma gauge_inv_unique : forall g1 g2 ks,
  gauge_inv g1 ks -> gauge_inv g2 ks -> g_pc g1 = g_pc g2 -> (2 <= pc_items g1)%nat -> g1 = g2.
Proof.
  intros g1 g2 ks H1 H2 Hpc Hc.
  destruct ks as [|k0 r].
  - apply gauge_inv_nil in H1. apply gauge_inv_nil in H2. congruence.
  - assert (Hc2 : pc_items g2 = pc_items g1).
    { unfold pc_items. rewrite Hpc. destruct (g_pc g2); [reflexivity|].
      rewrite (gauge_inv_n _ _ H1), (gauge_inv_n _ _ H2). reflexivity. }
    destruct H1 as [E1 R1]. destruct H2 as [E2 R2].
    specialize (R1 ltac:(discriminate)). specialize (R2 ltac:(discriminate)).
    destruct R1 as [[P1|[C1 _]] _]; [|lia]. destruct R2 as [[P2|[C2 _]] _]; [|lia].
    rewrite E1, E2. rewrite Hpc. f_equal. rewrite P1, P2, Hc2. reflexivity.
Qed.

(* body_size_after / body_size_after_chunk are the body size after the ingestion *)
Definition gnone_ok (g : gauge) : Prop := g_first g = None -> g = g0.

Lemma gauge_inv_gnone : forall g ks, gauge_inv g ks -> gnone_ok g.
Proof.
  intros g ks [H _] Hf. destruct ks; [exact H|]. rewrite H in Hf. discriminate.
Qed.

Lemma body_after_eq : forall g k len,
  gnone_ok g -> g_body (ingest_key g k len) = body_after g k len.
Proof.
  intros g k len Hn. unfold body_after, ingest_key, g_body, total_len, pc_items.
  destruct (g_first g) as [[f fl]|] eqn:Ef.
  - cbn [g_first g_plen g_sum g_pc g_n]. destruct (g_pc g); reflexivity.
  - rewrite (Hn Ef). cbn [g0 g_first g_plen g_sum g_pc g_n].
    unfold csize. f_equal. replace (len - len) with 0 by lia. cbn. lia.
Qed.

Lemma body_after_chunk_eq : forall g b s e sum,
  gnone_ok g -> g_body (ingest_chunk g b s e sum) = body_after_chunk g b s e sum.
Proof.
  intros g b s e sum Hn. unfold body_after_chunk, ingest_chunk, g_body, total_len, pc_items.
  destruct (g_first g) as [[f fl]|] eqn:Ef.
  - cbn [g_first g_plen g_sum g_pc g_n]. destruct (g_pc g); reflexivity.
  - rewrite (Hn Ef). cbn [g0 g_first g_plen g_sum g_pc g_n]. reflexivity.
Qed.

(* ------------------------------------------------------------------------------------------- *)
(* operations                                                                                    *)

Definition dkeys_op (b : bnode) (o : bop) : list key :=
  match o with
  | OIns k _ => [k]
  | OUpd pos _ => [bkey b pos]
  | OKeep s e _ => ckeys b s e
  end.
Definition dkeys (b : bnode) (ops : list bop) : list key := flat_map (dkeys_op b) ops.

(* an operation the tracker may hold: Update and KeepChunk refer to prefix-compressed separators of
   the base, the sum of a chunk is the sum of the separator lengths of its range *)
Definition op_wf (b : bnode) (o : bop) : Prop :=
  match o with
  | OIns _ _ => True
  | OUpd pos _ => (pos < bn_pc b)%nat
  | OKeep s e sum => (s < e)%nat /\ (e <= bn_pc b)%nat /\ sum = sumN (map sl (ckeys b s e))
  end.

(* once prefix compression has been stopped after [c] separators only insertions follow *)
Definition pc_split (b : bnode) (pc : option nat) (ops : list bop) : Prop :=
  match pc with
  | None => True
  | Some c => exists o1 o2, ops = o1 ++ o2 /\ length (dkeys b o1) = c /\ all_inserts o2 = true
  end.

Lemma dkeys_app : forall b x y, dkeys b (x ++ y) = dkeys b x ++ dkeys b y.
Proof. intros. unfold dkeys. apply flat_map_app. Qed.

Lemma dkeys_one : forall b o, dkeys b [o] = dkeys_op b o.
Proof. intros. unfold dkeys. cbn. apply app_nil_r. Qed.

Lemma dkeys_cons : forall b o r, dkeys b (o :: r) = dkeys_op b o ++ dkeys b r.
Proof. reflexivity. Qed.

Lemma all_inserts_app : forall x y, all_inserts (x ++ y) = all_inserts x && all_inserts y.
Proof. intros. unfold all_inserts. apply forallb_app. Qed.

Lemma inserts_of_dkeys : forall b cnt s,
  (s + cnt <= bn_n b)%nat -> dkeys b (inserts_of b s cnt) = ckeys b s (s + cnt).
Proof.
  intros b cnt. induction cnt as [|cnt IH]; intros s H.
  - rewrite ckeys_nil by lia. reflexivity.
  - cbn [inserts_of]. rewrite dkeys_cons. cbn [dkeys_op]. rewrite IH by lia.
    rewrite (ckeys_cons b s (s + S cnt)) by lia. cbn [app]. do 2 f_equal. lia.
Qed.

Lemma inserts_of_all : forall b cnt s, all_inserts (inserts_of b s cnt) = true.
Proof. intros b cnt. induction cnt as [|cnt IH]; intros s; [reflexivity|]. cbn. apply IH. Qed.

Lemma inserts_of_wf : forall b cnt s, Forall (op_wf b) (inserts_of b s cnt).
Proof. intros b cnt. induction cnt as [|cnt IH]; intros s; constructor; [exact I|apply IH]. Qed.

Lemma expand_dkeys : forall b o, bwf b -> op_wf b o -> dkeys b (expand b o) = dkeys_op b o.
Proof.
  intros b o Hb Hw. destruct o as [k pn|pos pn|s e sum];
    [cbn [expand]; rewrite dkeys_one; reflexivity|cbn [expand]; rewrite dkeys_one; reflexivity|].
  cbn [expand dkeys_op]. destruct Hw as [H1 [H2 _]]. pose proof (bwf_pc b Hb).
  rewrite inserts_of_dkeys by lia. f_equal. lia.
Qed.

Lemma expand_all : forall b o, all_inserts (expand b o) = true.
Proof. intros b [k pn|pos pn|s e sum]; try reflexivity. apply inserts_of_all. Qed.

Lemma expand_wf : forall b o, Forall (op_wf b) (expand b o).
Proof.
  intros b [k pn|pos pn|s e sum]; cbn [expand]; try (constructor; [exact I|constructor]).
  apply inserts_of_wf.
Qed.

Lemma ingest_op_inv : forall g ks b o,
  bwf b -> op_wf b o -> gauge_inv g ks -> gauge_inv (ingest_op g b o) (ks ++ dkeys_op b o).
Proof.
  intros g ks b o Hb Hw Hg. destruct o as [k pn|pos pn|s e sum]; cbn [ingest_op dkeys_op].
  - apply ingest_key_inv. exact Hg.
  - apply ingest_key_inv. exact Hg.
  - destruct Hw as [H1 [H2 H3]]. pose proof (bwf_pc b Hb).
    apply ingest_chunk_inv; [exact Hg|exact H1|lia|exact H3].
Qed.

Lemma pc_split_app_ins : forall b pc ops x,
  pc_split b pc ops -> all_inserts x = true -> pc_split b pc (ops ++ x).
Proof.
  intros b [c|] ops x H Hx; [|exact I].
  destruct H as [o1 [o2 [E [L A]]]]. exists o1, (o2 ++ x).
  rewrite E, app_assoc. split; [reflexivity|]. split; [exact L|].
  rewrite all_inserts_app, A, Hx. reflexivity.
Qed.

(* ------------------------------------------------------------------------------------------- *)
(* the tracker                                                                                   *)

Record tinv (b : bnode) (t : tracker) : Prop := mkTinv {
  ti_wf : Forall (op_wf b) (t_ops t);
  ti_g : gauge_inv (t_g t) (dkeys b (t_ops t));
  ti_pc : pc_split b (g_pc (t_g t)) (t_ops t)
}.

Lemma ingest_key_pc : forall g k len, g_pc (ingest_key g k len) = g_pc g.
Proof. intros g k len. unfold ingest_key. destruct (g_first g) as [[f fl]|]; reflexivity. Qed.

Lemma ingest_chunk_pc : forall g b s e sum, g_pc (ingest_chunk g b s e sum) = g_pc g.
Proof. intros. unfold ingest_chunk. destruct (g_first g) as [[f fl]|]; reflexivity. Qed.

Lemma ingest_op_pc : forall g b o, g_pc (ingest_op g b o) = g_pc g.
Proof. intros g b [k pn|pos pn|s e sum]; cbn [ingest_op]; [apply ingest_key_pc|apply ingest_key_pc|apply ingest_chunk_pc]. Qed.

Lemma push_insert_tinv : forall b t k pn,
  tinv b t -> tinv b (push_insert t k pn)
  /\ dkeys b (t_ops (push_insert t k pn)) = dkeys b (t_ops t) ++ [k].
Proof.
  intros b t k pn [Hw Hg Hp]. unfold push_insert. cbn [t_ops t_g].
  assert (Hd : dkeys b (t_ops t ++ [OIns k pn]) = dkeys b (t_ops t) ++ [k]).
  { rewrite dkeys_app, dkeys_one. reflexivity. }
  split; [|exact Hd]. constructor; cbn [t_ops t_g].
  - apply Forall_app. split; [exact Hw|constructor; [exact I|constructor]].
  - rewrite Hd. apply ingest_key_inv. exact Hg.
  - rewrite ingest_key_pc. apply pc_split_app_ins; [exact Hp|reflexivity].
Qed.

Lemma push_update_tinv : forall b t pos pn,
  tinv b t -> tinv b (push_update t b pos pn)
  /\ dkeys b (t_ops (push_update t b pos pn)) = dkeys b (t_ops t) ++ [bkey b pos].
Proof.
  intros b t pos pn [Hw Hg Hp]. unfold push_update. cbn [t_ops t_g].
  set (k := bkey b pos). set (g := ingest_key (t_g t) k (sl k)).
  set (op := if (bn_pc b <=? pos)%nat || is_some (g_pc g) then OIns k pn else OUpd pos pn).
  assert (Hop : dkeys_op b op = [k]) by (unfold op; destruct ((bn_pc b <=? pos)%nat || is_some (g_pc g)); reflexivity).
  assert (Hd : dkeys b (t_ops t ++ [op]) = dkeys b (t_ops t) ++ [k]).
  { rewrite dkeys_app, dkeys_one, Hop. reflexivity. }
  split; [|exact Hd]. constructor; cbn [t_ops t_g].
  - apply Forall_app. split; [exact Hw|]. constructor; [|constructor].
    unfold op. destruct ((bn_pc b <=? pos)%nat || is_some (g_pc g)) eqn:E; [exact I|].
    apply orb_false_iff in E. destruct E as [E _]. apply Nat.leb_gt in E. exact E.
  - rewrite Hd. apply ingest_key_inv. exact Hg.
  - unfold g at 1. rewrite ingest_key_pc.
    destruct (g_pc (t_g t)) as [c|] eqn:Ec; [|exact I].
    assert (Hins : op = OIns k pn).
    { unfold op, g. rewrite ingest_key_pc, Ec. cbn. rewrite orb_true_r. reflexivity. }
    rewrite Hins. apply pc_split_app_ins; [exact Hp|reflexivity].
Qed.

Lemma push_inserts_tinv : forall b cnt t s,
  tinv b t -> (s + cnt <= bn_n b)%nat ->
  tinv b (push_inserts t b s cnt)
  /\ dkeys b (t_ops (push_inserts t b s cnt)) = dkeys b (t_ops t) ++ ckeys b s (s + cnt).
Proof.
  intros b cnt. induction cnt as [|cnt IH]; intros t s Ht Hs.
  - cbn [push_inserts]. rewrite ckeys_nil by lia. rewrite app_nil_r. split; [exact Ht|reflexivity].
  - cbn [push_inserts]. destruct (push_insert_tinv b t (bkey b s) (bpn b s) Ht) as [Ht1 Hd1].
    destruct (IH _ (S s) Ht1 ltac:(lia)) as [Ht2 Hd2]. split; [exact Ht2|].
    rewrite Hd2, Hd1, <- app_assoc. f_equal. rewrite (ckeys_cons b s (s + S cnt)) by lia.
    cbn [app]. do 2 f_equal. lia.
Qed.

Lemma push_chunk_tinv : forall b t s e,
  bwf b -> tinv b t -> (s < e)%nat -> (e <= bn_n b)%nat ->
  tinv b (push_chunk t b s e)
  /\ dkeys b (t_ops (push_chunk t b s e)) = dkeys b (t_ops t) ++ ckeys b s e.
Proof.
  intros b t s e Hb Ht Hse He. pose proof (bwf_pc b Hb) as Hpcn. unfold push_chunk.
  set (bce := Nat.min e (bn_pc b)).
  assert (H1 : exists t1, (if (s <? bce)%nat then
      let sum := usize (bn_plen b) (range_len b s bce) (bce - s) (sl (bkey b s)) in
      let g := ingest_chunk (t_g t) b s bce sum in
      mkT (t_ops t ++ (if is_some (g_pc g) then inserts_of b s (bce - s) else [OKeep s bce sum])) g
    else t) = t1 /\ tinv b t1 /\ dkeys b (t_ops t1) = dkeys b (t_ops t) ++ ckeys b s (Nat.max s bce)).
  { destruct (s <? bce)%nat eqn:E.
    - apply Nat.ltb_lt in E. eexists. split; [reflexivity|].
      assert (Hsum : usize (bn_plen b) (range_len b s bce) (bce - s) (sl (bkey b s)) = sumN (map sl (ckeys b s bce))).
      { apply usize_exact; [exact Hb|exact E|unfold bce; lia]. }
      rewrite Hsum. cbv zeta. destruct Ht as [Hw Hg Hp].
      set (sum := sumN (map sl (ckeys b s bce))).
      set (g := ingest_chunk (t_g t) b s bce sum).
      assert (Hkw : op_wf b (OKeep s bce sum)) by (cbn; repeat split; [exact E|unfold bce; lia]).
      assert (Hd : dkeys b (t_ops t ++ (if is_some (g_pc g) then inserts_of b s (bce - s) else [OKeep s bce sum]))
                   = dkeys b (t_ops t) ++ ckeys b s bce).
      { rewrite dkeys_app. f_equal. destruct (is_some (g_pc g)).
        - rewrite inserts_of_dkeys by (unfold bce; lia). f_equal. lia.
        - apply dkeys_one. }
      replace (Nat.max s bce) with bce by lia.
      split; [|exact Hd]. constructor; cbn [t_ops t_g].
      + apply Forall_app. split; [exact Hw|]. destruct (is_some (g_pc g)); [apply inserts_of_wf|].
        constructor; [exact Hkw|constructor].
      + rewrite Hd. apply (ingest_op_inv (t_g t) _ b (OKeep s bce sum) Hb Hkw Hg).
      + unfold g at 1. rewrite ingest_chunk_pc.
        destruct (g_pc (t_g t)) as [c|] eqn:Ec; [|exact I].
        unfold g. rewrite ingest_chunk_pc, Ec. cbn [is_some].
        apply pc_split_app_ins; [exact Hp|apply inserts_of_all].
    - apply Nat.ltb_ge in E. exists t. split; [reflexivity|]. split; [exact Ht|].
      replace (Nat.max s bce) with s by lia. rewrite ckeys_nil by lia. rewrite app_nil_r. reflexivity. }
  destruct H1 as [t1 [E1 [Ht1 Hd1]]]. cbv zeta in E1. rewrite E1.
  destruct (push_inserts_tinv b (e - Nat.max s bce) t1 (Nat.max s bce) Ht1 ltac:(lia)) as [Ht2 Hd2].
  split; [exact Ht2|]. rewrite Hd2, Hd1, <- app_assoc. f_equal.
  replace (Nat.max s bce + (e - Nat.max s bce))%nat with e by lia.
  symmetry. apply ckeys_app; lia.
Qed.

(* ------------------------------------------------------------------------------------------- *)
(* bounds                                                                                        *)

Definition kok (ks : list key) : Prop := asc ks /\ (forall k, In k ks -> length k = 256%nat).

Lemma kok_app_l : forall a b, kok (a ++ b) -> kok a.
Proof.
  intros a b [H1 H2]. split; [eapply asc_app_l; exact H1|].
  intros k Hk. apply H2. apply in_or_app. left. exact Hk.
Qed.

Lemma kok_app_r : forall a b, kok (a ++ b) -> kok b.
Proof.
  intros a b [H1 H2]. split; [eapply asc_app_r; exact H1|].
  intros k Hk. apply H2. apply in_or_app. right. exact Hk.
Qed.

Lemma div8_mono : forall a b, a <= b -> a / 8 <= b / 8.
Proof. intros. apply N.div_le_mono; lia. Qed.

Lemma div8_add : forall a d, d <= 256 -> (a + d) / 8 <= a / 8 + 33.
Proof.
  intros a d Hd.
  assert (H : (a + d) / 8 <= (a + 8 * 33) / 8) by (apply div8_mono; lia).
  replace (a + 8 * 33) with (a + 33 * 8) in H by lia.
  rewrite N.div_add in H by lia. exact H.
Qed.

(* a node with a single separator is small *)
Lemma body_single : forall g k,
  gauge_inv g [k] -> length k = 256%nat -> g_plen g <= 256 -> g_body g <= 38.
Proof.
  intros g k Hg Hk Hp. pose proof (sl_le k Hk) as Hs.
  destruct (gauge_inv_pc_items g [k] Hg ltac:(discriminate)) as [Hc1 Hc2]. cbn [length] in Hc2.
  destruct Hg as [Hg _]. destruct g as [f p sm pc n].
  cbn [g_pc g_plen gauge_of length map sumN] in *. injection Hg as Hf Hsm Hn. subst f sm n.
  unfold g_body, total_len. cbn [g_first g_sum g_n g_plen]. unfold csize, body_size.
  replace (pc_items (mkG (Some (k, sl k)) p 0 pc 1) - 1)%nat with 0%nat by lia.
  assert (H : (p + (sl k - p + 0 - N.of_nat 0 * p) + 7) / 8 <= (256 + 7) / 8)
    by (apply div8_mono; lia).
  change ((256 + 7) / 8) with 32 in H. change (N.of_nat 1) with 1. lia.
Qed.

Lemma plen_le_256 : forall g ks, gauge_inv g ks -> ks <> [] -> (forall k, In k ks -> length k = 256%nat) ->
  g_plen g <= 256.
Proof.
  intros g ks Hg Hne Hlen.
  destruct (gauge_inv_pc_items g ks Hg Hne) as [Hc1 Hc2].
  destruct Hg as [_ Hr]. destruct (Hr Hne) as [[Hp|[_ Hp]] _]; rewrite Hp.
  - apply pl_le. apply Hlen. apply nth_In. lia.
  - apply sl_le. apply Hlen. destruct ks; [contradiction|left; reflexivity].
Qed.

(* once compression is stopped a further separator costs at most 39 bytes *)
Lemma body_after_some_bound : forall g k len f fl c,
  g_first g = Some (f, fl) -> g_pc g = Some c ->
  N.of_nat (c - 1) * g_plen g <= (fl - g_plen g) + g_sum g -> len <= 256 ->
  body_after g k len <= g_body g + 39.
Proof.
  intros g k len f fl c Hf Hc Hu Hl. unfold body_after, g_body, total_len, pc_items.
  rewrite Hf, Hc. unfold body_size, csize.
  set (p := g_plen g) in *. set (q := N.of_nat (c - 1) * p) in *.
  replace (p + (fl - p + (g_sum g + len) - q) + 7) with ((p + (fl - p + g_sum g - q) + 7) + len) by lia.
  pose proof (div8_add (p + (fl - p + g_sum g - q) + 7) len Hl).
  rewrite Nat2N.inj_succ. lia.
Qed.

(* the same for the separator that makes the updater stop the compression *)
Lemma body_after_stop_bound : forall g k len f fl,
  g_first g = Some (f, fl) -> g_pc g = None ->
  N.of_nat (g_n g - 1) * g_plen g <= (fl - g_plen g) + g_sum g -> len <= 256 ->
  body_after (stop_compression g) k len <= g_body g + 39.
Proof.
  intros g k len f fl Hf Hc Hu Hl.
  assert (Hb : g_body (stop_compression g) = g_body g).
  { unfold g_body, total_len, pc_items, stop_compression. cbn [g_first g_plen g_sum g_pc g_n].
    rewrite Hc. reflexivity. }
  rewrite <- Hb. apply (body_after_some_bound _ k len f fl (g_n g)); try assumption; reflexivity.
Qed.

(* ------------------------------------------------------------------------------------------- *)
(* try_split_keep_chunk                                                                          *)

Definition gfold (g : gauge) (ks : list key) : gauge :=
  fold_left (fun g k => ingest_key g k (sl k)) ks g.

Lemma gfold_inv : forall ks2 g ks, gauge_inv g ks -> gauge_inv (gfold g ks2) (ks ++ ks2).
Proof.
  induction ks2 as [|k r IH]; intros g ks Hg; cbn [gfold fold_left].
  - rewrite app_nil_r. exact Hg.
  - replace (ks ++ k :: r) with ((ks ++ [k]) ++ r) by (rewrite <- app_assoc; reflexivity).
    apply IH. apply ingest_key_inv. exact Hg.
Qed.

Lemma gfold_pc : forall ks g, g_pc (gfold g ks) = g_pc g.
Proof.
  induction ks as [|k r IH]; intros g; cbn [gfold fold_left]; [reflexivity|].
  fold (gfold (ingest_key g k (sl k)) r). rewrite IH. apply ingest_key_pc.
Qed.

Lemma ingest_key_plen_some : forall g k len c, g_first g <> None -> g_pc g = Some c ->
  g_plen (ingest_key g k len) = g_plen g /\ g_first (ingest_key g k len) <> None.
Proof.
  intros g k len c Hf Hc. unfold ingest_key. destruct (g_first g) as [[f fl]|]; [|contradiction].
  cbn [g_plen g_first]. rewrite Hc. split; [reflexivity|discriminate].
Qed.

Lemma gfold_plen_some : forall ks g c, g_first g <> None -> g_pc g = Some c ->
  g_plen (gfold g ks) = g_plen g.
Proof.
  induction ks as [|k r IH]; intros g c Hf Hc; cbn [gfold fold_left]; [reflexivity|].
  fold (gfold (ingest_key g k (sl k)) r).
  destruct (ingest_key_plen_some g k (sl k) c Hf Hc) as [Hp Hf'].
  rewrite (IH _ c Hf'); [exact Hp|rewrite ingest_key_pc; exact Hc].
Qed.

Lemma gauge_eq : forall g1 g2 ks,
  gauge_inv g1 ks -> gauge_inv g2 ks -> g_pc g1 = g_pc g2 -> g_plen g1 = g_plen g2 -> g1 = g2.
Proof. intros g1 g2 ks [E1 _] [E2 _] Hpc Hp. rewrite E1, E2, Hpc, Hp. reflexivity. Qed.

(* ingesting a chunk is ingesting its separators one by one, up to the prefix length of a node
   with a single separator *)
Lemma chunk_body_fold : forall g ks b s e sum,
  gauge_inv g ks -> (s < e)%nat -> (e <= bn_n b)%nat -> sum = sumN (map sl (ckeys b s e)) ->
  (forall k, In k (ks ++ ckeys b s e) -> length k = 256%nat) ->
  g_body (ingest_chunk g b s e sum) <= N.max 38 (g_body (gfold g (ckeys b s e))).
Proof.
  intros g ks b s e sum Hg Hse He Hsum Hlen.
  pose proof (ingest_chunk_inv g ks b s e sum Hg Hse He Hsum) as H1.
  pose proof (gfold_inv (ckeys b s e) g ks Hg) as H2.
  assert (Hne : ks ++ ckeys b s e <> []).
  { rewrite ckeys_cons by lia. intros H. apply app_eq_nil in H. destruct H as [_ H]. discriminate. }
  assert (Hpc : g_pc (ingest_chunk g b s e sum) = g_pc (gfold g (ckeys b s e)))
    by (rewrite ingest_chunk_pc, gfold_pc; reflexivity).
  destruct (g_pc g) as [c|] eqn:Ec.
  - (* compression stopped: the prefix length does not change *)
    assert (Hf : g_first g <> None).
    { destruct Hg as [Eg Hr]. destruct ks as [|k0 r].
      - rewrite Eg in Ec. discriminate.
      - rewrite Eg. discriminate. }
    assert (Hp : g_plen (ingest_chunk g b s e sum) = g_plen (gfold g (ckeys b s e))).
    { rewrite (gfold_plen_some _ g c Hf Ec). unfold ingest_chunk.
      destruct (g_first g) as [[f fl]|]; [|contradiction]. cbn [g_plen]. rewrite Ec. reflexivity. }
    rewrite (gauge_eq _ _ _ H1 H2 Hpc Hp). lia.
  - destruct (Nat.le_gt_cases 2 (length (ks ++ ckeys b s e))) as [Hl|Hl].
    + assert (Hp : g_plen (ingest_chunk g b s e sum) = g_plen (gfold g (ckeys b s e))).
      { destruct H1 as [_ R1]. destruct H2 as [_ R2].
        destruct (R1 Hne) as [P1 _]. destruct (R2 Hne) as [P2 _].
        unfold pc_items in P1, P2. rewrite ingest_chunk_pc in P1. rewrite gfold_pc in P2. rewrite Ec in P1, P2.
        rewrite (gauge_inv_n _ _ (ingest_chunk_inv g ks b s e sum Hg Hse He Hsum)) in P1.
        rewrite (gauge_inv_n _ _ (gfold_inv (ckeys b s e) g ks Hg)) in P2.
        destruct P1 as [P1|[C1 _]]; [|lia]. destruct P2 as [P2|[C2 _]]; [|lia]. congruence. }
      rewrite (gauge_eq _ _ _ H1 H2 Hpc Hp). lia.
    + (* a single separator *)
      destruct (ks ++ ckeys b s e) as [|k [|k' r]] eqn:Ek; [contradiction| |cbn in Hl; lia].
      assert (Hk : length k = 256%nat) by (apply Hlen; left; reflexivity).
      pose proof (plen_le_256 _ _ H1 ltac:(discriminate) Hlen) as Hp.
      pose proof (body_single _ k H1 Hk Hp). lia.
Qed.

Lemma split_scan_spec : forall cnt b g target limit i ln lsum ln' lsum',
  split_scan b g target limit i cnt ln lsum = (ln', lsum') ->
  gnone_ok g -> (i + cnt <= bn_n b)%nat ->
  exists m, (m <= cnt)%nat /\ ln' = (ln + m)%nat
            /\ lsum' = lsum + sumN (map sl (ckeys b i (i + m)))
            /\ ((1 <= m)%nat -> g_body (gfold g (ckeys b i (i + m))) <= N.max limit (target - 1)).
Proof.
  induction cnt as [|cnt IH]; intros b g target limit i ln lsum ln' lsum' H Hn Hi.
  - cbn [split_scan] in H. inversion H; subst. exists 0%nat.
    rewrite ckeys_nil by lia. cbn. repeat split; try lia.
  - cbn [split_scan] in H. set (k := bkey b i) in *.
    pose proof (body_after_eq g k (sl k) Hn) as Hb.
    destruct (target <=? body_after g k (sl k)) eqn:Et.
    + apply N.leb_le in Et. destruct (limit <? body_after g k (sl k)) eqn:El.
      * inversion H; subst. exists 0%nat. rewrite ckeys_nil by lia. cbn. repeat split; try lia.
      * apply N.ltb_ge in El. inversion H; subst. exists 1%nat.
        replace (i + 1)%nat with (S i) by lia. rewrite ckeys_one by lia. fold k.
        cbn [map sumN gfold fold_left]. repeat split; try lia.
    + apply N.leb_gt in Et.
      assert (Hn' : gnone_ok (ingest_key g k (sl k))).
      { intros Hf. unfold ingest_key in Hf. destruct (g_first g) as [[f fl]|]; discriminate. }
      destruct (IH b _ target limit (S i) (S ln) (lsum + sl k) ln' lsum' H Hn' ltac:(lia))
        as [m [Hm [Hln [Hls Hbody]]]].
      exists (S m). rewrite (ckeys_cons b i (i + S m)) by lia. fold k.
      replace (i + S m)%nat with (S i + m)%nat by lia.
      cbn [map sumN gfold fold_left]. fold (gfold (ingest_key g k (sl k)) (ckeys b (S i) (S i + m))).
      repeat split; try lia.
      intros _. destruct m as [|m].
      * rewrite ckeys_nil by lia. cbn [gfold fold_left]. lia.
      * apply Hbody. lia.
Qed.

(* ------------------------------------------------------------------------------------------- *)
(* extract_ops_until                                                                             *)

Record xinv (b : bnode) (ks0 : list key) (done todo : list bop) (g : gauge) (target : N) : Prop := mkXinv {
  xi_done : Forall (op_wf b) done;
  xi_todo : Forall (op_wf b) todo;
  xi_g : gauge_inv g (dkeys b done);
  xi_pc : pc_split b (g_pc g) done;
  xi_body : g_body g <= BODY;
  xi_t1 : 1 <= target;
  xi_t2 : target <= BODY;
  xi_stop : g_pc g <> None -> target = MERGE;
  xi_ks : dkeys b (done ++ todo) = ks0
}.

Definition xpost (b : bnode) (ks0 : list key) (r : xres) : Prop :=
  match r with
  | XSome d g rest =>
      Forall (op_wf b) d /\ Forall (op_wf b) rest /\ dkeys b (d ++ rest) = ks0
      /\ gauge_inv g (dkeys b d) /\ pc_split b (g_pc g) d /\ g_body g <= BODY /\ dkeys b d <> []
  | XNone ops g =>
      Forall (op_wf b) ops /\ dkeys b ops = ks0 /\ gauge_inv g (dkeys b ops)
      /\ pc_split b (g_pc g) ops /\ g_body g <= BODY
  | XFuel => True
  end.

Lemma g_body_g0 : g_body g0 = 0.
Proof. reflexivity. Qed.

Lemma xfinish_post : forall b ks0 done todo g target target',
  xinv b ks0 done todo g target -> 1 <= target' ->
  (todo = [] \/ target' <= g_body g) ->
  xpost b ks0 (xfinish done todo g target').
Proof.
  intros b ks0 done todo g target target' [Hd Ht Hg Hp Hb _ _ _ Hks] Ht1 Hc.
  unfold xfinish. destruct (target' <=? g_body g) eqn:E.
  - apply N.leb_le in E. cbn [xpost].
    refine (conj Hd (conj Ht (conj Hks (conj Hg (conj Hp (conj Hb _)))))).
    intros Hnil. rewrite Hnil in Hg. apply gauge_inv_nil in Hg. subst g. rewrite g_body_g0 in E. lia.
  - apply N.leb_gt in E. destruct Hc as [Hc|Hc]; [|lia]. subst todo.
    cbn [xpost]. rewrite app_nil_r in *. exact (conj Hd (conj Hks (conj Hg (conj Hp Hb)))).
Qed.

(* the keys of the operations still to do are 256 bits wide *)
Lemma kok_todo_len : forall b ks0 done o rest k,
  kok ks0 -> dkeys b (done ++ o :: rest) = ks0 -> In k (dkeys_op b o) -> length k = 256%nat.
Proof.
  intros b ks0 done o rest k [_ Hl] E Hin. apply Hl. rewrite <- E, dkeys_app, dkeys_cons.
  apply in_or_app. right. apply in_or_app. left. exact Hin.
Qed.

(* one operation ingested (after an optional stop of the compression) *)
Lemma xinv_ingest : forall b ks0 done o rest g target g' target',
  bwf b -> kok ks0 -> xinv b ks0 done (o :: rest) g target ->
  ((g' = g /\ target' = target)
   \/ (g' = stop_compression g /\ target' = MERGE /\ g_pc g = None /\ dkeys b done <> [])) ->
  g_body (ingest_op g' b o) <= BODY ->
  xinv b ks0 (done ++ (if is_some (g_pc (ingest_op g' b o)) then expand b o else [o])) rest
       (ingest_op g' b o) target'.
Proof.
  intros b ks0 done o rest g target g' target' Hb Hk [Hd Ht Hg Hp Hbody Ht1 Ht2 Hstop Hks] Hcase Hb2.
  inversion Ht as [|o' r' Ho Hr]; subst o' r'.
  assert (Hg' : gauge_inv g' (dkeys b done)).
  { destruct Hcase as [[-> _]|[-> [_ [Hn Hne]]]]; [exact Hg|apply stop_inv; assumption]. }
  set (X := if is_some (g_pc (ingest_op g' b o)) then expand b o else [o]).
  assert (HX : dkeys b X = dkeys_op b o).
  { unfold X. destruct (is_some _); [apply expand_dkeys; assumption|apply dkeys_one]. }
  constructor.
  - apply Forall_app. split; [exact Hd|]. unfold X. destruct (is_some _); [apply expand_wf|].
    constructor; [exact Ho|constructor].
  - exact Hr.
  - rewrite dkeys_app, HX. apply ingest_op_inv; assumption.
  - rewrite ingest_op_pc. unfold X. rewrite ingest_op_pc.
    destruct Hcase as [[-> _]|[-> [_ [Hn Hne]]]].
    + destruct (g_pc g) as [c|] eqn:Ec; [|exact I]. cbn [is_some].
      apply pc_split_app_ins; [exact Hp|apply expand_all].
    + cbn [stop_compression g_pc is_some]. exists done, (expand b o).
      split; [reflexivity|]. split; [symmetry; apply (gauge_inv_n _ _ Hg)|apply expand_all].
  - exact Hb2.
  - destruct Hcase as [[_ ->]|[_ [-> _]]]; [exact Ht1|unfold MERGE; lia].
  - destruct Hcase as [[_ ->]|[_ [-> _]]]; [exact Ht2|unfold MERGE, BODY; lia].
  - rewrite ingest_op_pc. destruct Hcase as [[-> ->]|[_ [-> _]]]; [exact Hstop|reflexivity].
  - rewrite <- Hks, !dkeys_app, HX, dkeys_cons, <- app_assoc. reflexivity.
Qed.

(* the todo list is changed without changing what it denotes *)
Lemma xinv_retodo : forall b ks0 done todo todo' g target,
  xinv b ks0 done todo g target -> Forall (op_wf b) todo' -> dkeys b todo' = dkeys b todo ->
  xinv b ks0 done todo' g target.
Proof.
  intros b ks0 done todo todo' g target [Hd Ht Hg Hp Hbody Ht1 Ht2 Hstop Hks] Hw He.
  constructor; try assumption. rewrite <- Hks, !dkeys_app, He. reflexivity.
Qed.

(* facts about the gauge of the operations done so far *)
Lemma xinv_gauge_facts : forall b ks0 done todo g target,
  kok ks0 -> xinv b ks0 done todo g target -> dkeys b done <> [] ->
  exists f fl, g_first g = Some (f, fl)
               /\ N.of_nat (pc_items g - 1) * g_plen g <= (fl - g_plen g) + g_sum g.
Proof.
  intros b ks0 done todo g target Hk Hx Hne. destruct Hx as [_ _ Hg _ _ _ _ _ Hks].
  assert (Hkd : kok (dkeys b done)).
  { rewrite <- Hks, dkeys_app in Hk. eapply kok_app_l. exact Hk. }
  destruct Hkd as [Ha Hl].
  pose proof (gauge_lb g _ Hg Hne Ha Hl) as Hlb.
  destruct (body_exact g _ Hg Hne Hlb) as [_ [_ Hu]].
  destruct (g_first g) as [[f fl]|]; [|contradiction]. exists f, fl. split; [reflexivity|exact Hu].
Qed.

(* an insertion that does not fit: the compression is not stopped yet and something was ingested *)
Lemma insert_overflow_facts : forall b ks0 done todo g target k,
  kok ks0 -> xinv b ks0 done todo g target -> length k = 256%nat ->
  g_body g < target -> BODY < body_after g k (sl k) ->
  g_pc g = None /\ dkeys b done <> [].
Proof.
  intros b ks0 done todo g target k Hk Hx Hkl Hlt Hov.
  pose proof (sl_le k Hkl) as Hsl.
  assert (Hne : dkeys b done <> []).
  { intros Hnil. destruct Hx as [_ _ Hg _ _ _ _ _ _]. rewrite Hnil in Hg. apply gauge_inv_nil in Hg. subst g.
    unfold body_after, body_size in Hov. cbn [g0 g_first g_n] in Hov.
    assert (H : (sl k + 0 + 7) / 8 <= (256 + 7) / 8) by (apply div8_mono; lia).
    change ((256 + 7) / 8) with 32 in H. change (N.of_nat 1) with 1 in Hov. unfold BODY in Hov. lia. }
  split; [|exact Hne].
  destruct (g_pc g) as [c|] eqn:Ec; [|reflexivity]. exfalso.
  destruct (xinv_gauge_facts _ _ _ _ _ _ Hk Hx Hne) as [f [fl [Hf Hu]]].
  unfold pc_items in Hu. rewrite Ec in Hu.
  pose proof (body_after_some_bound g k (sl k) f fl c Hf Ec Hu Hsl) as Hbd.
  destruct Hx as [_ _ _ _ _ _ _ Hstop _]. rewrite Ec in Hstop.
  rewrite (Hstop ltac:(discriminate)) in Hlt. unfold MERGE, BODY in *. lia.
Qed.

Lemma try_split_spec : forall b g ks s e sum target ln repl,
  bwf b -> gauge_inv g ks -> (s < e)%nat -> (e <= bn_pc b)%nat -> sum = sumN (map sl (ckeys b s e)) ->
  (forall k, In k (ks ++ ckeys b s e) -> length k = 256%nat) ->
  target <= BODY ->
  try_split b g s e sum target BODY = (ln, repl) -> ln <> 0%nat ->
  exists o more, repl = o :: more /\ Forall (op_wf b) repl /\ dkeys b repl = ckeys b s e
                 /\ g_body (ingest_op g b o) <= BODY.
Proof.
  intros b g ks s e sum target ln repl Hb Hg Hse He Hsum Hlen Ht Hts Hln.
  pose proof (bwf_pc b Hb) as Hpcn.
  unfold try_split in Hts.
  destruct (split_scan b g target BODY s (e - s) 0 0) as [ln0 lsum] eqn:Es.
  destruct (split_scan_spec _ _ _ _ _ _ _ _ _ _ Es (gauge_inv_gnone _ _ Hg) ltac:(lia))
    as [m [Hm [Hln0 [Hls Hbody]]]].
  cbn [Nat.add] in Hln0. subst ln0. rewrite N.add_0_l in Hls.
  assert (Hbound : forall e', e' = (s + m)%nat -> (1 <= m)%nat ->
            g_body (ingest_chunk g b s e' (sumN (map sl (ckeys b s e')))) <= BODY).
  { intros e' -> Hm1.
    assert (Hl' : forall k, In k (ks ++ ckeys b s (s + m)) -> length k = 256%nat).
    { intros k Hin. apply Hlen. apply in_app_or in Hin. apply in_or_app.
      destruct Hin as [Hin|Hin]; [left; exact Hin|right].
      rewrite (ckeys_app b s (s + m) e) by lia. apply in_or_app. left. exact Hin. }
    pose proof (chunk_body_fold g ks b s (s + m) _ Hg ltac:(lia) ltac:(lia) eq_refl Hl') as Hc.
    specialize (Hbody Hm1). unfold BODY in *. lia. }
  destruct (negb (m =? 0)%nat && negb (e - s =? m)%nat) eqn:Ec.
  - apply andb_true_iff in Ec. destruct Ec as [E1 E2].
    apply negb_true_iff in E1. apply negb_true_iff in E2.
    apply Nat.eqb_neq in E1. apply Nat.eqb_neq in E2.
    inversion Hts; subst ln repl.
    assert (Hw1 : op_wf b (OKeep s (s + m) lsum)) by (cbn; repeat split; [lia|lia|exact Hls]).
    assert (Hw2 : op_wf b (OKeep (s + m) e (sum - lsum))).
    { cbn. repeat split; [lia|lia|]. rewrite Hsum, Hls, (ckeys_app b s (s + m) e) by lia.
      rewrite map_app, sumN_app. lia. }
    eexists _, _. split; [reflexivity|]. split; [constructor; [exact Hw1|constructor; [exact Hw2|constructor]]|].
    split.
    + rewrite dkeys_cons, dkeys_one. cbn [dkeys_op]. symmetry. apply ckeys_app; lia.
    + cbn [ingest_op]. rewrite Hls. apply Hbound; [reflexivity|lia].
  - inversion Hts; subst ln repl.
    assert (Hme : m = (e - s)%nat).
    { apply andb_false_iff in Ec. destruct Ec as [Ec|Ec]; apply negb_false_iff in Ec; apply Nat.eqb_eq in Ec; lia. }
    eexists _, _. split; [reflexivity|].
    split; [constructor; [cbn; repeat split; [lia|lia|exact Hsum]|constructor]|].
    split; [apply dkeys_one|].
    cbn [ingest_op]. rewrite Hsum. apply Hbound; lia.
Qed.

Lemma extract_first_spec : forall b s e sum,
  bwf b -> op_wf b (OKeep s e sum) ->
  Forall (op_wf b) (extract_first b s e sum) /\ dkeys b (extract_first b s e sum) = ckeys b s e.
Proof.
  intros b s e sum Hb [H1 [H2 H3]]. pose proof (bwf_pc b Hb) as Hpcn. unfold extract_first.
  destruct (s =? e - 1)%nat eqn:E.
  - apply Nat.eqb_eq in E. split; [constructor; [exact I|constructor]|].
    rewrite dkeys_one. cbn [dkeys_op]. replace e with (S s) by lia. symmetry. apply ckeys_one. lia.
  - apply Nat.eqb_neq in E. split.
    + constructor; [exact I|]. constructor; [|constructor]. cbn. repeat split; [lia|lia|].
      rewrite H3, (ckeys_cons b s e) by lia. cbn [map sumN]. lia.
    + rewrite dkeys_cons, dkeys_one. cbn [dkeys_op app]. symmetry. apply ckeys_cons; lia.
Qed.

Theorem xloop_post : forall fuel b ks0 done todo g target,
  bwf b -> kok ks0 -> xinv b ks0 done todo g target ->
  xpost b ks0 (xloop fuel b done todo g target).
Proof.
  induction fuel as [|fuel IH]; intros b ks0 done todo g target Hb Hk Hx; [exact I|].
  cbn [xloop]. destruct todo as [|op rest].
  - apply (xfinish_post b ks0 done [] g target target Hx (xi_t1 _ _ _ _ _ _ Hx)). left. reflexivity.
  - destruct (target <=? g_body g) eqn:Eguard.
    + apply N.leb_le in Eguard.
      apply (xfinish_post b ks0 done _ g target target Hx (xi_t1 _ _ _ _ _ _ Hx)). right. exact Eguard.
    + apply N.leb_gt in Eguard.
      assert (Hopw : op_wf b op) by (pose proof (xi_todo _ _ _ _ _ _ Hx) as H; inversion H; assumption).
      assert (Hgn : gnone_ok g) by (eapply gauge_inv_gnone; apply (xi_g _ _ _ _ _ _ Hx)).
      assert (Hoplen : forall k, In k (dkeys_op b op) -> length k = 256%nat).
      { intros k Hin. apply (kok_todo_len b ks0 done op rest k Hk (xi_ks _ _ _ _ _ _ Hx) Hin). }
      (* the plain ingestion of the operation at the head *)
      assert (Hing : forall o rest', op_wf b o ->
                xinv b ks0 done (o :: rest') g target -> g_body (ingest_op g b o) <= BODY ->
                xpost b ks0 (xloop fuel b (done ++ (if is_some (g_pc (ingest_op g b o)) then expand b o else [o]))
                                  rest' (ingest_op g b o) target)).
      { intros o rest' Ho Hx' Hb2. apply IH; [exact Hb|exact Hk|].
        apply (xinv_ingest b ks0 done o rest' g target g target Hb Hk Hx'); [left; split; reflexivity|exact Hb2]. }
      destruct op as [k pn|pos pn|s e sum].
      * (* Insert *)
        assert (Hkl : length k = 256%nat) by (apply Hoplen; left; reflexivity).
        destruct (BODY <? body_after g k (sl k)) eqn:Eov.
        -- apply N.ltb_lt in Eov.
           destruct (insert_overflow_facts b ks0 done _ g target k Hk Hx Hkl Eguard Eov) as [Hpc Hne].
           destruct (g_body g <? MERGE) eqn:Em.
           ++ apply N.ltb_lt in Em. apply IH; [exact Hb|exact Hk|].
              apply (xinv_ingest b ks0 done (OIns k pn) rest g target (stop_compression g) MERGE Hb Hk Hx).
              { right. repeat split; assumption. }
              cbn [ingest_op]. rewrite body_after_eq.
              2:{ intros Hf. unfold stop_compression in Hf. cbn [g_first] in Hf.
                  destruct (xinv_gauge_facts _ _ _ _ _ _ Hk Hx Hne) as [f [fl [Hf' _]]]. congruence. }
              destruct (xinv_gauge_facts _ _ _ _ _ _ Hk Hx Hne) as [f [fl [Hf Hu]]].
              unfold pc_items in Hu. rewrite Hpc in Hu.
              pose proof (body_after_stop_bound g k (sl k) f fl Hf Hpc Hu (sl_le k Hkl)).
              unfold MERGE, BODY in *. lia.
           ++ apply N.ltb_ge in Em.
              apply (xfinish_post b ks0 done _ g target MERGE Hx); [unfold MERGE; lia|right; exact Em].
        -- apply N.ltb_ge in Eov. apply (Hing (OIns k pn) rest Hopw Hx).
           cbn [ingest_op]. rewrite body_after_eq by exact Hgn. exact Eov.
      * (* Update *)
        set (k := bkey b pos).
        destruct (BODY <? body_after g k (sl k)) eqn:Eov.
        -- apply N.ltb_lt in Eov. destruct (g_body g <? MERGE) eqn:Em.
           ++ apply IH; [exact Hb|exact Hk|].
              apply (xinv_retodo b ks0 done _ _ g target Hx).
              ** pose proof (xi_todo _ _ _ _ _ _ Hx) as H. inversion H; subst.
                 constructor; [exact I|assumption].
              ** reflexivity.
           ++ apply N.ltb_ge in Em.
              apply (xfinish_post b ks0 done _ g target MERGE Hx); [unfold MERGE; lia|right; exact Em].
        -- apply N.ltb_ge in Eov. apply (Hing (OUpd pos pn) rest Hopw Hx).
           cbn [ingest_op]. fold k. rewrite body_after_eq by exact Hgn. exact Eov.
      * (* KeepChunk *)
        destruct Hopw as [Hse [Hepc Hsum]].
        destruct (target <? body_after_chunk g b s e sum) eqn:Ebig.
        -- destruct (try_split b g s e sum target BODY) as [ln repl] eqn:Ets.
           destruct (ln =? 0)%nat eqn:Eln.
           ++ apply IH; [exact Hb|exact Hk|].
              destruct (extract_first_spec b s e sum Hb ltac:(cbn; repeat split; assumption)) as [Hw Hd].
              apply (xinv_retodo b ks0 done _ _ g target Hx).
              ** apply Forall_app. split; [exact Hw|].
                 pose proof (xi_todo _ _ _ _ _ _ Hx) as H. inversion H; assumption.
              ** rewrite dkeys_app, Hd, dkeys_cons. reflexivity.
           ++ apply Nat.eqb_neq in Eln.
              assert (Hlen : forall k, In k (dkeys b done ++ ckeys b s e) -> length k = 256%nat).
              { intros k Hin. destruct Hk as [_ Hl]. apply Hl.
                rewrite <- (xi_ks _ _ _ _ _ _ Hx), dkeys_app, dkeys_cons. cbn [dkeys_op].
                rewrite app_assoc. apply in_or_app. left. exact Hin. }
              destruct (try_split_spec b g _ s e sum target ln repl Hb (xi_g _ _ _ _ _ _ Hx) Hse Hepc Hsum
                          Hlen (xi_t2 _ _ _ _ _ _ Hx) Ets Eln) as [o [more [Er [Hw [Hd Hbd]]]]].
              subst repl. inversion Hw as [|o' m' Ho Hmore]; subst o' m'.
              assert (Hx' : xinv b ks0 done (o :: more ++ rest) g target).
              { apply (xinv_retodo b ks0 done _ _ g target Hx).
                - constructor; [exact Ho|]. apply Forall_app. split; [exact Hmore|].
                  pose proof (xi_todo _ _ _ _ _ _ Hx) as H. inversion H; assumption.
                - change (o :: more ++ rest) with ((o :: more) ++ rest).
                  rewrite dkeys_app, Hd, dkeys_cons. reflexivity. }
              apply (Hing o (more ++ rest) Ho Hx' Hbd).
        -- apply N.ltb_ge in Ebig.
           apply (Hing (OKeep s e sum) rest ltac:(cbn; repeat split; assumption) Hx).
           cbn [ingest_op]. rewrite body_after_chunk_eq by exact Hgn.
           pose proof (xi_t2 _ _ _ _ _ _ Hx). lia.
Qed.

(* ------------------------------------------------------------------------------------------- *)
(* the builder                                                                                   *)

Record binv (P : N) (C Nn : nat) (bd : builder) (kf : list key) : Prop := mkBinv {
  bi_n : bd_n bd = Nn;
  bi_pc : bd_pc bd = C;
  bi_plen : bd_plen bd = P;
  bi_keys : bd_keys bd = kf;
  bi_lens : bd_lens bd = slens P C 0 kf;
  bi_pns : length (bd_pns bd) = Nn
}.

Lemma binv_index : forall P C Nn bd kf, binv P C Nn bd kf -> bd_index bd = length kf.
Proof. intros P C Nn bd kf H. unfold bd_index. rewrite (bi_lens _ _ _ _ _ H). apply slens_length. Qed.

Lemma set_nth_length : forall (A : Type) (l : list A) i x, length (set_nth i x l) = length l.
Proof.
  intros A l. induction l as [|y l IH]; intros i x; [destruct i; reflexivity|].
  destruct i; cbn; [reflexivity|]. rewrite IH. reflexivity.
Qed.

Lemma set_pns_length : forall upd l at_, length (set_pns l at_ upd) = length l.
Proof.
  induction upd as [|[i pn] r IH]; intros l at_; cbn [set_pns]; [reflexivity|].
  rewrite IH. apply set_nth_length.
Qed.

Lemma copy_pns_length : forall src l at_, length (copy_pns l at_ src) = length l.
Proof.
  induction src as [|pn r IH]; intros l at_; cbn [copy_pns]; [reflexivity|].
  rewrite IH. apply set_nth_length.
Qed.

Lemma bpush_spec : forall P C Nn bd kf k pn,
  binv P C Nn bd kf -> (length kf < Nn)%nat ->
  exists bd', bpush bd k (sl k) pn = Some bd' /\ binv P C Nn bd' (kf ++ [k]).
Proof.
  intros P C Nn bd kf k pn H Hl. pose proof (binv_index _ _ _ _ _ H) as Hi.
  destruct H as [Hn Hc Hp Hk Hls Hpn]. unfold bpush. rewrite Hi, Hn.
  replace (length kf <? Nn)%nat with true by (symmetry; apply Nat.ltb_lt; exact Hl).
  eexists. split; [reflexivity|].
  constructor; cbn [bd_n bd_pc bd_plen bd_keys bd_lens bd_pns]; try assumption; try reflexivity.
  - rewrite Hk. reflexivity.
  - rewrite Hls, slens_app. cbn [slens Nat.add]. rewrite Hc, Hp. reflexivity.
  - rewrite set_nth_length. exact Hpn.
Qed.

Lemma shifted_canon : forall b P j,
  bwf b -> (j < bn_pc b)%nat -> ((1 <= j)%nat \/ bn_plen b <= sl (bkey b j)) ->
  shifted_len (bn_plen b) P (it_len (bitem_at b j)) = sl (bkey b j) - P.
Proof.
  intros b P j Hb Hj Hlb. pose proof (bwf_pc b Hb).
  assert (Hge : bn_plen b <= sl (bkey b j)).
  { destruct Hlb as [H1|H1]; [apply (bwf_lb b Hb j H1 Hj)|exact H1]. }
  rewrite (bwf_canon b Hb j) by lia.
  replace (j <? bn_pc b)%nat with true by (symmetry; apply Nat.ltb_lt; exact Hj).
  unfold canon_len, shifted_len. destruct (P <? bn_plen b) eqn:E.
  - apply N.ltb_lt in E. lia.
  - apply N.ltb_ge in E. lia.
Qed.

Lemma shifted_range : forall b P C cnt from idx,
  bwf b -> (from + cnt <= bn_pc b)%nat -> ((1 <= from)%nat \/ bn_plen b <= sl (bkey b from)) ->
  (idx + cnt <= C)%nat ->
  map (fun it => shifted_len (bn_plen b) P (it_len it)) (items_range b from (from + cnt))
  = slens P C idx (ckeys b from (from + cnt)).
Proof.
  intros b P C cnt. induction cnt as [|cnt IH]; intros from idx Hb Hpc Hlb Hidx.
  - rewrite items_range_nil, ckeys_nil by lia. reflexivity.
  - pose proof (bwf_pc b Hb).
    rewrite items_range_cons, ckeys_cons by lia. cbn [map slens].
    replace (from + S cnt)%nat with (S from + cnt)%nat by lia.
    rewrite (IH (S from) (S idx) Hb ltac:(lia) ltac:(left; lia) ltac:(lia)).
    f_equal. fold (bitem_at b from). rewrite shifted_canon by (try assumption; lia).
    unfold canon_len. replace (idx <? C)%nat with true by (symmetry; apply Nat.ltb_lt; lia). reflexivity.
Qed.

Lemma bpush_range_zero : forall bd b s, bpush_range bd b s 0 = Some bd.
Proof. reflexivity. Qed.

(* apply_chunk of build_branch on a range of prefix-compressed separators of the base that stays
   prefix-compressed in the new node (with the repair a637aba) *)
Lemma flush_spec : forall P C Nn bd kf b s e upd,
  bwf b -> binv P C Nn bd kf -> (s < e)%nat -> (e <= bn_pc b)%nat ->
  (length kf + (e - s) <= C)%nat -> (length kf + (e - s) <= Nn)%nat ->
  exists bd', apply_chunk true C bd b s e upd = Some bd' /\ binv P C Nn bd' (kf ++ ckeys b s e).
Proof.
  intros P C Nn bd kf b s e upd Hb H Hse He HC HN. pose proof (bwf_pc b Hb) as Hpcn.
  pose proof (binv_index _ _ _ _ _ H) as Hi.
  unfold apply_chunk. rewrite Hi.
  replace (Nat.min (s + (C - length kf)) e) with e by lia.
  cut (exists bd', bpush_chunk true bd b s e upd = Some bd' /\ binv P C Nn bd' (kf ++ ckeys b s e)).
  { intros [bd' [E Hb']]. rewrite E, Nat.sub_diag. exists bd'. split; [reflexivity|exact Hb']. }
  unfold bpush_chunk. rewrite Hi, (bi_pc _ _ _ _ _ H).
  replace (length kf + (e - s) <=? C)%nat with true by (symmetry; apply Nat.leb_le; exact HC).
  cbn [negb andb].
  destruct ((s =? 0)%nat && negb (e - s =? 0)%nat && (sl (bkey b 0) <? bn_plen b)) eqn:Epre.
  - (* the first separator is shorter than the prefix of the base: pushed on its own *)
    apply andb_true_iff in Epre. destruct Epre as [Epre E3].
    apply andb_true_iff in Epre. destruct Epre as [E1 E2]. apply Nat.eqb_eq in E1. subst s.
    destruct (bpush_spec P C Nn bd kf (bkey b 0) (bpn b 0) H ltac:(lia)) as [bd1 [Ep H1]].
    rewrite Ep. pose proof (binv_index _ _ _ _ _ H1) as Hi1. rewrite app_length in Hi1. cbn [length] in Hi1.
    eexists. split; [reflexivity|].
    destruct H1 as [Hn Hc Hp Hk Hls Hpn].
    constructor; cbn [bd_n bd_pc bd_plen bd_keys bd_lens bd_pns]; try assumption.
    + rewrite Hk, <- app_assoc. f_equal. rewrite (ckeys_cons b 0 e) by lia. reflexivity.
    + rewrite Hls, Hp.
      pose proof (shifted_range b P C (e - 1) 1 (length kf + 1) Hb ltac:(lia) ltac:(left; lia) ltac:(lia)) as Hs.
      replace (1 + (e - 1))%nat with e in Hs by lia.
      change (firstn (e - 1) (skipn 1 (bn_items b))) with (items_range b 1 e). rewrite Hs.
      rewrite (ckeys_cons b 0 e) by lia.
      replace (kf ++ bkey b 0 :: ckeys b 1 e) with ((kf ++ [bkey b 0]) ++ ckeys b 1 e)
        by (rewrite <- app_assoc; reflexivity).
      rewrite (slens_app P C 0 (kf ++ [bkey b 0])). rewrite app_length. cbn [length Nat.add]. reflexivity.
    + rewrite set_pns_length, copy_pns_length. exact Hpn.
  - eexists. split; [reflexivity|].
    assert (Hlb : (1 <= s)%nat \/ bn_plen b <= sl (bkey b s)).
    { destruct s as [|s]; [right|left; lia].
      apply andb_false_iff in Epre. destruct Epre as [Epre|Epre].
      - apply andb_false_iff in Epre. destruct Epre as [E|E]; [discriminate|].
        apply negb_false_iff in E. apply Nat.eqb_eq in E. lia.
      - apply N.ltb_ge in Epre. exact Epre. }
    destruct H as [Hn Hc Hp Hk Hls Hpn].
    constructor; cbn [bd_n bd_pc bd_plen bd_keys bd_lens bd_pns]; try assumption.
    + rewrite Hk. reflexivity.
    + rewrite Hls, Hp.
      pose proof (shifted_range b P C (e - s) s (length kf) Hb ltac:(lia) Hlb ltac:(lia)) as Hs.
      replace (s + (e - s))%nat with e in Hs by lia. fold (items_range b s e). rewrite Hs.
      rewrite slens_app. reflexivity.
    + rewrite set_pns_length, copy_pns_length. exact Hpn.
Qed.

Definition pkeys (b : bnode) (p : pending) : list key :=
  match p with None => [] | Some (s, e, _) => ckeys b s e end.

Definition pend_ok (b : bnode) (C : nat) (kf : list key) (p : pending) : Prop :=
  match p with
  | None => True
  | Some (s, e, _) => (s < e)%nat /\ (e <= bn_pc b)%nat /\ (length kf + (e - s) <= C)%nat
  end.

(* every Update / KeepChunk lies within the first [C] separators of the new node *)
Fixpoint cw (b : bnode) (C acc : nat) (ops : list bop) : Prop :=
  match ops with
  | [] => True
  | o :: r =>
      match o with OIns _ _ => True | _ => (acc + length (dkeys_op b o) <= C)%nat end
      /\ cw b C (acc + length (dkeys_op b o)) r
  end.

Lemma cw_total : forall b C ops acc, (acc + length (dkeys b ops) <= C)%nat -> cw b C acc ops.
Proof.
  intros b C ops. induction ops as [|o r IH]; intros acc H; [exact I|].
  rewrite dkeys_cons, app_length in H. cbn [cw]. split.
  - destruct o; [exact I|lia|lia].
  - apply IH. lia.
Qed.

Lemma cw_inserts : forall b C ops acc, all_inserts ops = true -> cw b C acc ops.
Proof.
  intros b C ops. induction ops as [|o r IH]; intros acc H; [exact I|].
  cbn [all_inserts forallb] in H. apply andb_true_iff in H. destruct H as [H1 H2].
  cbn [cw]. split; [destruct o; [exact I|discriminate|discriminate]|apply IH; exact H2].
Qed.

Lemma cw_app : forall b C x y acc,
  cw b C acc x -> cw b C (acc + length (dkeys b x)) y -> cw b C acc (x ++ y).
Proof.
  intros b C x. induction x as [|o r IH]; intros y acc H1 H2.
  - cbn [app]. cbn [dkeys flat_map length] in H2. rewrite Nat.add_0_r in H2. exact H2.
  - cbn [app cw] in *. destruct H1 as [Ha Hb]. split; [exact Ha|]. apply IH; [exact Hb|].
    rewrite dkeys_cons, app_length in H2. rewrite <- Nat.add_assoc. exact H2.
Qed.

Lemma pc_split_cw : forall b g ops,
  gauge_inv g (dkeys b ops) -> pc_split b (g_pc g) ops -> dkeys b ops <> [] -> cw b (pc_items g) 0 ops.
Proof.
  intros b g ops Hg Hp Hne. pose proof (gauge_inv_n _ _ Hg) as Hn.
  unfold pc_items. destruct (g_pc g) as [c|] eqn:Ec.
  - destruct Hp as [o1 [o2 [E [L A]]]]. subst ops. apply cw_app.
    + apply cw_total. lia.
    + apply cw_inserts. exact A.
  - apply cw_total. lia.
Qed.

Lemma build_ops_spec : forall P C Nn b ops bd pend kf,
  bwf b -> Forall (op_wf b) ops -> binv P C Nn bd kf -> pend_ok b C kf pend ->
  cw b C (length kf + length (pkeys b pend)) ops ->
  (length kf + length (pkeys b pend) + length (dkeys b ops) <= Nn)%nat ->
  exists bd' pend' kf',
    build_ops true C b (bd, pend) ops = Some (bd', pend') /\ binv P C Nn bd' kf' /\ pend_ok b C kf' pend'
    /\ kf' ++ pkeys b pend' = kf ++ pkeys b pend ++ dkeys b ops.
Proof.
  intros P C Nn b ops. induction ops as [|o r IH]; intros bd pend kf Hb Hw Hbi Hpo Hcw HN.
  - exists bd, pend, kf. cbn [build_ops dkeys flat_map]. rewrite app_nil_r.
    exact (conj eq_refl (conj Hbi (conj Hpo eq_refl))).
  - inversion Hw as [|o' r' Ho Hr]; subst o' r'. pose proof (bwf_pc b Hb) as Hpcn.
    cbn [cw] in Hcw. destruct Hcw as [Hc1 Hc2]. rewrite dkeys_cons, app_length in HN.
    cbn [build_ops].
    (* a fresh operation on a builder without pending chunk *)
    assert (Hfresh : forall bd1 kf1, binv P C Nn bd1 kf1 ->
              length kf1 = (length kf + length (pkeys b pend))%nat ->
              exists bd2 pend2 kf2, build_fresh bd1 o = Some (bd2, pend2) /\ binv P C Nn bd2 kf2
                /\ pend_ok b C kf2 pend2 /\ kf2 ++ pkeys b pend2 = kf1 ++ dkeys_op b o).
    { intros bd1 kf1 Hb1 Hl1. destruct o as [k pn|pos pn|s e sum]; cbn [build_fresh dkeys_op].
      - cbn [dkeys_op length] in HN.
        destruct (bpush_spec P C Nn bd1 kf1 k pn Hb1 ltac:(lia)) as [bd2 [E2 H2]]. rewrite E2.
        exists bd2, None, (kf1 ++ [k]). cbn [pkeys pend_ok]. rewrite app_nil_r.
        exact (conj eq_refl (conj H2 (conj I eq_refl))).
      - cbn in Ho. cbn [dkeys_op length] in Hc1.
        exists bd1, (Some (pos, S pos, [(0%nat, pn)])), kf1. cbn [pkeys pend_ok].
        rewrite ckeys_one by lia.
        refine (conj eq_refl (conj Hb1 (conj _ eq_refl))). repeat split; lia.
      - destruct Ho as [H1 [H2 H3]]. cbn [dkeys_op] in Hc1. rewrite ckeys_length in Hc1 by lia.
        exists bd1, (Some (s, e, [])), kf1. cbn [pkeys pend_ok].
        refine (conj eq_refl (conj Hb1 (conj _ eq_refl))). repeat split; lia. }
    (* flushing the pending chunk *)
    assert (Hflush : forall s e upd, pend = Some (s, e, upd) ->
              exists bd1, apply_chunk true C bd b s e upd = Some bd1 /\ binv P C Nn bd1 (kf ++ ckeys b s e)).
    { intros s e upd ->. cbn [pend_ok pkeys] in *. destruct Hpo as [H1 [H2 H3]].
      rewrite ckeys_length in HN by lia.
      apply flush_spec; try assumption; lia. }
    (* continuation *)
    assert (Hcont : forall bd2 pend2 kf2, binv P C Nn bd2 kf2 -> pend_ok b C kf2 pend2 ->
              kf2 ++ pkeys b pend2 = kf ++ pkeys b pend ++ dkeys_op b o ->
              exists bd' pend' kf',
                build_ops true C b (bd2, pend2) r = Some (bd', pend') /\ binv P C Nn bd' kf' /\ pend_ok b C kf' pend'
                /\ kf' ++ pkeys b pend' = kf ++ pkeys b pend ++ dkeys b (o :: r)).
    { intros bd2 pend2 kf2 H2 Hp2 Hk2.
      assert (Hl2 : (length kf2 + length (pkeys b pend2) = length kf + length (pkeys b pend) + length (dkeys_op b o))%nat).
      { rewrite <- !app_length, Hk2, !app_length. lia. }
      destruct (IH bd2 pend2 kf2 Hb Hr H2 Hp2) as [bd' [pend' [kf' [E [Hb' [Hp' Hk']]]]]].
      - rewrite Hl2. exact Hc2.
      - lia.
      - exists bd', pend', kf'. refine (conj E (conj Hb' (conj Hp' _))).
        rewrite Hk', app_assoc, Hk2, dkeys_cons, <- !app_assoc. reflexivity. }
    unfold build_step.
    destruct pend as [[[s e] upd]|].
    + destruct (Hflush s e upd eq_refl) as [bd1 [Ef Hb1]].
      cbn [pkeys pend_ok] in *. destruct Hpo as [Hp1 [Hp2 Hp3]].
      assert (Hlen1 : length (kf ++ ckeys b s e) = (length kf + length (ckeys b s e))%nat) by apply app_length.
      (* flush, then the operation afresh *)
      assert (Hff : exists bd' pend' kf',
                match (match apply_chunk true C bd b s e upd with
                       | Some bd' => build_fresh bd' o
                       | None => None
                       end) with
                | Some st' => build_ops true C b st' r
                | None => None
                end = Some (bd', pend') /\ binv P C Nn bd' kf' /\ pend_ok b C kf' pend'
                /\ kf' ++ pkeys b pend' = kf ++ ckeys b s e ++ dkeys b (o :: r)).
      { rewrite Ef. destruct (Hfresh bd1 _ Hb1 Hlen1) as [bd2 [pend2 [kf2 [E2 [H2 [Hpo2 Hk2]]]]]].
        rewrite E2. apply (Hcont bd2 pend2 kf2 H2 Hpo2). rewrite Hk2, <- app_assoc. reflexivity. }
      destruct o as [k pn|pos pn|cs ce sum].
      * exact Hff.
      * destruct (e =? pos)%nat eqn:Ee; [|exact Hff]. apply Nat.eqb_eq in Ee. subst pos.
        cbn in Ho. cbn [dkeys_op length] in Hc1. rewrite ckeys_length in Hc1 by lia.
        apply (Hcont bd (Some (s, S e, upd ++ [((e - s)%nat, pn)])) kf Hbi).
        -- cbn [pend_ok]. repeat split; lia.
        -- cbn [pkeys dkeys_op]. f_equal. rewrite (ckeys_app b s e (S e)) by lia.
           rewrite (ckeys_one b e) by lia. reflexivity.
      * destruct (e =? cs)%nat eqn:Ee; [|exact Hff]. apply Nat.eqb_eq in Ee. subst cs.
        destruct Ho as [H1 [H2 H3]]. cbn [dkeys_op] in Hc1. rewrite !ckeys_length in Hc1 by lia.
        apply (Hcont bd (Some (s, ce, upd)) kf Hbi).
        -- cbn [pend_ok]. repeat split; lia.
        -- cbn [pkeys dkeys_op]. f_equal. apply ckeys_app; lia.
    + cbn [pkeys length] in *. rewrite Nat.add_0_r in *.
      destruct (Hfresh bd kf Hbi eq_refl) as [bd2 [pend2 [kf2 [E2 [H2 [Hpo2 Hk2]]]]]].
      rewrite E2. apply (Hcont bd2 pend2 kf2 H2 Hpo2). rewrite Hk2. reflexivity.
Qed.

Lemma bwf_empty : bwf empty_node.
Proof.
  constructor; cbn; try lia; try exact I; intros; lia.
Qed.

Lemma zip_items_maps : forall ks ls ps,
  length ks = length ls -> length ks = length ps ->
  map it_key (zip_items ks ls ps) = ks /\ map it_len (zip_items ks ls ps) = ls
  /\ length (zip_items ks ls ps) = length ks.
Proof.
  induction ks as [|k ks IH]; intros [|l ls] [|p ps] H1 H2; cbn in *; try discriminate; try lia.
  - repeat split.
  - destruct (IH ls ps ltac:(lia) ltac:(lia)) as [A [B C]]. rewrite A, B, C. repeat split.
Qed.

Lemma repeat_length_N : forall (x : N) n, length (repeat x n) = n.
Proof. intros. apply repeat_length. Qed.

(* build_branch on the operations of a tracker writes the separators the operations denote with the
   stored lengths the gauge accounted for *)
Theorem build_branch_spec : forall ob ops g,
  let b := match ob with Some b => b | None => empty_node end in
  bwf b -> Forall (op_wf b) ops -> gauge_inv g (dkeys b ops) -> pc_split b (g_pc g) ops ->
  dkeys b ops <> [] ->
  exists m, build_branch true ob ops g = Some m
    /\ bo_gauge_body m = g_body g /\ bo_n m = length (dkeys b ops) /\ bo_pushed m = length (dkeys b ops)
    /\ bn_plen (bo_node m) = g_plen g /\ bn_pc (bo_node m) = pc_items g
    /\ map it_key (bn_items (bo_node m)) = dkeys b ops
    /\ map it_len (bn_items (bo_node m)) = slens (g_plen g) (pc_items g) 0 (dkeys b ops).
Proof.
  intros ob ops g b Hb Hw Hg Hp Hne.
  pose proof (gauge_inv_n _ _ Hg) as Hn.
  set (P := g_plen g). set (C := pc_items g). set (Nn := g_n g).
  assert (H0 : binv P C Nn (builder_new Nn C P) []).
  { constructor; try reflexivity. cbn. apply repeat_length. }
  destruct (build_ops_spec P C Nn b ops (builder_new Nn C P) None [] Hb Hw H0 I)
    as [bd' [pend' [kf' [E [Hb' [Hp' Hk']]]]]].
  { cbn [length pkeys Nat.add]. apply pc_split_cw; assumption. }
  { cbn [length pkeys Nat.add]. unfold Nn. lia. }
  cbn [pkeys app] in Hk'.
  (* the builder after the last flush *)
  assert (Hfin : exists bd, binv P C Nn bd (dkeys b ops) /\
            match pend' with
            | None => bd = bd'
            | Some (s, e, upd) => apply_chunk true C bd' b s e upd = Some bd
            end).
  { destruct pend' as [[[s e] upd]|].
    - cbn [pkeys pend_ok] in *. destruct Hp' as [H1 [H2 H3]].
      pose proof (bwf_pc b Hb).
      assert (Hl : (length kf' + (e - s) <= Nn)%nat).
      { unfold Nn. rewrite Hn, <- Hk', app_length, ckeys_length by lia. lia. }
      destruct (flush_spec P C Nn bd' kf' b s e upd Hb Hb' H1 H2 H3 Hl) as [bd [Ef Hbd]].
      exists bd. rewrite Hk' in Hbd. split; [exact Hbd|exact Ef].
    - cbn [pkeys] in Hk'. rewrite app_nil_r in Hk'. exists bd'. rewrite <- Hk'. split; [exact Hb'|reflexivity]. }
  destruct Hfin as [bd [Hbd Hlast]].
  pose proof (binv_index _ _ _ _ _ Hbd) as Hidx.
  destruct Hbd as [Bn Bc Bp Bk Bl Bpn].
  assert (Hz := zip_items_maps (bd_keys bd) (bd_lens bd) (bd_pns bd)).
  rewrite Bk, Bl, Bpn, slens_length in Hz. unfold Nn in Hz. rewrite Hn in Hz.
  destruct (Hz eq_refl eq_refl) as [Z1 [Z2 Z3]].
  exists (mkBuilt (g_body g) (mkNode (bd_plen bd) (bd_pc bd) (zip_items (bd_keys bd) (bd_lens bd) (bd_pns bd)))
                  (bd_n bd) (bd_index bd)).
  split.
  - unfold build_branch. fold P C Nn.
    destruct ob as [b0|].
    + unfold b, pending in *. rewrite E. destruct pend' as [[[s e] upd]|]; [rewrite Hlast; reflexivity|subst bd'; reflexivity].
    + unfold b, pending in *.
      assert (Hall : all_inserts ops = true).
      { clear -Hw. induction ops as [|o r IH]; [reflexivity|]. inversion Hw; subst.
        cbn [all_inserts forallb]. fold (all_inserts r). rewrite (IH H2), andb_true_r.
        destruct o as [k pn|pos pn|s e sum]; [reflexivity|cbn in H1; lia|cbn in H1; lia]. }
      rewrite Hall, E. destruct pend' as [[[s e] upd]|]; [|subst bd'; reflexivity].
      cbn [pend_ok empty_node bn_pc] in Hp'. lia.
  - cbn [bo_gauge_body bo_n bo_pushed bo_node bn_plen bn_pc bn_items].
    rewrite Bn, Hidx, Bp, Bc, Bk, Bl in *. unfold Nn. rewrite Hn.
    repeat split; assumption.
Qed.

(* ------------------------------------------------------------------------------------------- *)
(* the node that was built                                                                       *)

Lemma canon_from_slens : forall p c items i,
  map it_len items = slens p c i (map it_key items) -> canon_from p c i items = true.
Proof.
  intros p c items. induction items as [|it r IH]; intros i H; [reflexivity|].
  cbn [map slens] in H. injection H as H1 H2. cbn [canon_from].
  rewrite H1, N.eqb_refl. cbn [andb]. apply IH. exact H2.
Qed.

Lemma built_wf : forall g ks nd,
  gauge_inv g ks -> ks <> [] -> kok ks ->
  bn_plen nd = g_plen g -> bn_pc nd = pc_items g ->
  map it_key (bn_items nd) = ks -> map it_len (bn_items nd) = slens (g_plen g) (pc_items g) 0 ks ->
  node_wf nd = true.
Proof.
  intros g ks nd Hg Hne [Hasc Hlen] Hpl Hpc Hkeys Hlens.
  destruct (gauge_inv_pc_items g ks Hg Hne) as [Hc1 Hc2].
  pose proof (plen_le_256 g ks Hg Hne Hlen) as Hp256.
  assert (Hn : bn_n nd = length ks) by (unfold bn_n; rewrite <- Hkeys, map_length; reflexivity).
  unfold node_wf. rewrite Hpl, Hpc, Hn.
  replace (1 <=? pc_items g)%nat with true by (symmetry; apply Nat.leb_le; exact Hc1).
  replace (pc_items g <=? length ks)%nat with true by (symmetry; apply Nat.leb_le; exact Hc2).
  replace (g_plen g <=? 256) with true by (symmetry; apply N.leb_le; exact Hp256).
  cbn [andb].
  assert (Hk256 : keys256 nd = true).
  { unfold keys256. apply forallb_forall. intros it Hin. apply Nat.eqb_eq. apply Hlen.
    rewrite <- Hkeys. apply in_map. exact Hin. }
  assert (Ha : ascending (map it_key (bn_items nd)) = true) by (rewrite Hkeys; apply ascending_asc; exact Hasc).
  assert (Hcan : canonical nd = true).
  { unfold canonical. rewrite Hpl, Hpc. apply canon_from_slens. rewrite Hkeys. exact Hlens. }
  assert (Hsh : shares_prefix nd = true).
  { unfold shares_prefix. destruct (bn_items nd) as [|it0 r] eqn:Eit; [reflexivity|].
    apply forallb_forall. intros it Hin. apply N.leb_le. rewrite Hpl, Hpc in *.
    destruct (In_nth _ _ ditem Hin) as [i [Hi Hnth]].
    rewrite firstn_length in Hi.
    assert (Hik : it_key it = nth i ks []).
    { rewrite <- Hnth, <- Hkeys.
      rewrite <- (firstn_skipn (pc_items g) (it0 :: r)) at 2. rewrite map_app.
      rewrite app_nth1 by (rewrite map_length, firstn_length; lia).
      change ([] : key) with (it_key ditem). rewrite map_nth. reflexivity. }
    assert (H0k : it_key it0 = hd [] ks) by (rewrite <- Hkeys; reflexivity).
    rewrite Hik, H0k.
    assert (Hil : (i < length ks)%nat) by lia.
    assert (Hk0 : length (hd [] ks) = 256%nat).
    { apply Hlen. destruct ks; [contradiction|left; reflexivity]. }
    destruct i as [|i].
    - assert (E0 : nth 0 ks [] = hd [] ks) by (destruct ks; reflexivity).
      rewrite E0, (pl_refl _ Hk0). exact Hp256.
    - destruct Hg as [_ Hr]. destruct (Hr Hne) as [[Hp|[Hc Hp]] _]; [|lia].
      rewrite Hp.
      assert (H0i : key_ltb (hd [] ks) (nth (S i) ks []) = true).
      { assert (E0 : hd [] ks = nth 0 ks []) by (destruct ks; reflexivity).
        rewrite E0. apply asc_nth_lt; [exact Hasc|lia|exact Hil]. }
      destruct (Nat.eq_dec (S i) (pc_items g - 1)) as [Ei|Ei]; [rewrite Ei; lia|].
      apply pl_mono; [exact H0i|]. apply asc_nth_lt; [exact Hasc|lia|lia]. }
  rewrite Hk256, Ha, Hsh, Hcan. reflexivity.
Qed.

(* a node the updater built: the gauge is exact, the node fits, it has the shape of a base node *)
Definition built_ok (m : built) : Prop :=
  bo_gauge_body m = node_body (bo_node m)
  /\ node_body (bo_node m) <= BODY
  /\ node_wf (bo_node m) = true
  /\ bo_n m = bn_n (bo_node m) /\ bo_pushed m = bn_n (bo_node m).

Lemma build_ok : forall ob ops g,
  let b := match ob with Some b => b | None => empty_node end in
  bwf b -> Forall (op_wf b) ops -> gauge_inv g (dkeys b ops) -> pc_split b (g_pc g) ops ->
  dkeys b ops <> [] -> kok (dkeys b ops) -> g_body g <= BODY ->
  exists m, build_branch true ob ops g = Some m /\ built_ok m
            /\ map it_key (bn_items (bo_node m)) = dkeys b ops.
Proof.
  intros ob ops g b Hb Hw Hg Hp Hne Hk Hbody.
  destruct (build_branch_spec ob ops g Hb Hw Hg Hp Hne) as [m [E [M1 [M2 [M3 [M4 [M5 [M6 M7]]]]]]]].
  fold b in M2, M3, M6, M7.
  exists m. split; [exact E|]. split; [|exact M6].
  destruct Hk as [Ha Hl].
  pose proof (gauge_lb g _ Hg Hne Ha Hl) as Hlb.
  destruct (body_exact g _ Hg Hne Hlb) as [Hex _].
  assert (Hn : bn_n (bo_node m) = length (dkeys b ops)).
  { unfold bn_n. rewrite <- M6, map_length. reflexivity. }
  assert (Hnb : node_body (bo_node m) = g_body g).
  { unfold node_body. rewrite M4, M7, Hn, Hex. reflexivity. }
  unfold built_ok. rewrite Hnb, M1, M2, M3, Hn. repeat split; try assumption.
  apply (built_wf g (dkeys b ops)); try assumption. split; assumption.
Qed.

(* ------------------------------------------------------------------------------------------- *)
(* try_split and digest                                                                          *)

Definition nkeys (m : built) : list key := map it_key (bn_items (bo_node m)).
Definition built_keys (nodes : list built) : list key := flat_map nkeys nodes.

Lemma built_keys_app : forall a b, built_keys (a ++ b) = built_keys a ++ built_keys b.
Proof. intros. unfold built_keys. apply flat_map_app. Qed.

Lemma xinv_init : forall b ops target,
  Forall (op_wf b) ops -> 1 <= target -> target <= BODY ->
  xinv b (dkeys b ops) [] ops g0 target.
Proof.
  intros b ops target Hw H1 H2. constructor; try assumption.
  - constructor.
  - apply gauge_inv_g0.
  - exact I.
  - rewrite g_body_g0. unfold BODY. lia.
  - intros H. contradiction H. reflexivity.
  - reflexivity.
Qed.

Lemma split_loop_spec : forall fuel ob b ops target acc nodes t',
  b = match ob with Some b => b | None => empty_node end ->
  bwf b -> Forall (op_wf b) ops -> kok (dkeys b ops) -> 1 <= target -> target <= BODY ->
  Forall built_ok acc ->
  split_loop fuel true ob ops target acc = Some (nodes, t') ->
  Forall built_ok nodes /\ tinv b t' /\ g_body (t_g t') <= BODY
  /\ built_keys nodes ++ dkeys b (t_ops t') = built_keys acc ++ dkeys b ops.
Proof.
  induction fuel as [|fuel IH]; intros ob b ops target acc nodes t' Eb0 Hb Hw Hk Ht1 Ht2 Hacc H; [discriminate|].
  cbn [split_loop] in H. rewrite <- Eb0 in H.
  pose proof (xloop_post (xfuel ops) b (dkeys b ops) [] ops g0 target Hb Hk (xinv_init b ops target Hw Ht1 Ht2)) as Hx.
  unfold extract_ops_until in H.
  destruct (xloop (xfuel ops) b [] ops g0 target) as [d g rest|ops' g|]; [| |discriminate].
  - cbn [xpost] in Hx. destruct Hx as [Hd [Hr [Hks [Hg [Hp [Hbody Hne]]]]]].
    rewrite dkeys_app in Hks.
    assert (Hkd : kok (dkeys b d)) by (rewrite <- Hks in Hk; eapply kok_app_l; exact Hk).
    assert (Hkr : kok (dkeys b rest)) by (rewrite <- Hks in Hk; eapply kok_app_r; exact Hk).
    pose proof (build_ok ob d g) as Hbo. cbv zeta in Hbo. rewrite <- Eb0 in Hbo.
    destruct (Hbo Hb Hd Hg Hp Hne Hkd Hbody) as [m [Eb [Hok Hmk]]].
    rewrite Eb in H.
    destruct (IH ob b rest target (acc ++ [m]) nodes t' Eb0 Hb Hr Hkr Ht1 Ht2) as [A [B [C D]]].
    + apply Forall_app. split; [exact Hacc|constructor; [exact Hok|constructor]].
    + exact H.
    + split; [exact A|]. split; [exact B|]. split; [exact C|].
      rewrite D, built_keys_app. unfold built_keys at 2. cbn [flat_map]. rewrite app_nil_r.
      unfold nkeys. rewrite Hmk, <- Hks, <- app_assoc. reflexivity.
  - cbn [xpost] in Hx. destruct Hx as [Hw' [Hks [Hg [Hp Hbody]]]].
    inversion H; subst nodes t'. cbn [t_ops t_g].
    split; [exact Hacc|]. split; [constructor; assumption|]. split; [exact Hbody|].
    rewrite Hks. reflexivity.
Qed.

Lemma dkeys_nil_ops : forall b ops, bwf b -> Forall (op_wf b) ops -> dkeys b ops = [] -> ops = [].
Proof.
  intros b ops Hb Hw H. destruct ops as [|o r]; [reflexivity|]. exfalso.
  inversion Hw; subst. rewrite dkeys_cons in H. apply app_eq_nil in H. destruct H as [H _].
  destruct o as [k pn|pos pn|s e sum]; cbn [dkeys_op] in H; try discriminate.
  destruct H2 as [A [B _]]. pose proof (bwf_pc b Hb).
  assert (L : length (ckeys b s e) = (e - s)%nat) by (apply ckeys_length; lia).
  rewrite H in L. cbn in L. lia.
Qed.

Lemma g_body_zero : forall g ks, gauge_inv g ks -> g_body g = 0 -> ks = [].
Proof.
  intros g ks Hg H0. destruct ks as [|k r]; [reflexivity|]. exfalso.
  pose proof (gauge_inv_n _ _ Hg) as Hn. unfold g_body, body_size in H0. rewrite Hn in H0.
  cbn [length] in H0. rewrite Nat2N.inj_succ in H0.
  set (d := (g_plen g + total_len g (g_plen g) + 7) / 8) in H0. lia.
Qed.

Lemma flat_expand_dkeys : forall b ops, bwf b -> Forall (op_wf b) ops ->
  dkeys b (flat_map (expand b) ops) = dkeys b ops /\ all_inserts (flat_map (expand b) ops) = true.
Proof.
  intros b ops Hb Hw. induction ops as [|o r IH]; [split; reflexivity|].
  inversion Hw; subst. destruct (IH H2) as [A B]. cbn [flat_map].
  rewrite dkeys_app, all_inserts_app, A, B, expand_all, (expand_dkeys b o Hb H1). split; reflexivity.
Qed.

Lemma all_inserts_wf : forall b ops, all_inserts ops = true -> Forall (op_wf b) ops.
Proof.
  intros b ops. induction ops as [|o r IH]; intros H; [constructor|].
  cbn [all_inserts forallb] in H. apply andb_true_iff in H. destruct H as [H1 H2].
  constructor; [destruct o; [exact I|discriminate|discriminate]|apply IH; exact H2].
Qed.

Lemma all_inserts_dkeys : forall b b' ops, all_inserts ops = true -> dkeys b ops = dkeys b' ops.
Proof.
  intros b b' ops. induction ops as [|o r IH]; intros H; [reflexivity|].
  cbn [all_inserts forallb] in H. apply andb_true_iff in H. destruct H as [H1 H2].
  rewrite !dkeys_cons, (IH H2). destruct o; [reflexivity|discriminate|discriminate].
Qed.

(* a tracker that holds insertions only does not depend on the base *)
Lemma tinv_rebase : forall b b' t, tinv b t -> all_inserts (t_ops t) = true -> tinv b' t.
Proof.
  intros b b' t [Hw Hg Hp] Ha. constructor.
  - apply all_inserts_wf. exact Ha.
  - rewrite (all_inserts_dkeys b' b _ Ha). exact Hg.
  - destruct (g_pc (t_g t)) as [c|]; [|exact I]. destruct Hp as [o1 [o2 [E [L A]]]].
    exists o1, o2. split; [exact E|]. split; [|exact A].
    rewrite E, all_inserts_app in Ha. apply andb_true_iff in Ha. destruct Ha as [Ha1 _].
    rewrite (all_inserts_dkeys b' b _ Ha1). exact L.
Qed.

Definition ubase (u : updater) : bnode := base_or_empty u.

Record uinv (u : updater) : Prop := mkUinv {
  ui_b : bwf (ubase u);
  ui_low : (u_low u <= bn_n (ubase u))%nat;
  ui_t : tinv (ubase u) (u_t u);
  ui_k : kok (dkeys (ubase u) (t_ops (u_t u)) ++ ckeys (ubase u) (u_low u) (bn_n (ubase u)))
}.

(* what is left in the tracker after a digest: insertions only *)
Definition carry (t : tracker) : Prop :=
  all_inserts (t_ops t) = true /\ tinv empty_node t /\ kok (dkeys empty_node (t_ops t)).

Lemma keep_up_to_end_spec : forall u,
  uinv u ->
  let u1 := keep_up_to_end u in
  u_base u1 = u_base u /\ tinv (ubase u) (u_t u1)
  /\ dkeys (ubase u) (t_ops (u_t u1))
     = dkeys (ubase u) (t_ops (u_t u)) ++ ckeys (ubase u) (u_low u) (bn_n (ubase u)).
Proof.
  intros u [Hb Hl Ht Hk]. unfold keep_up_to_end, ubase, base_or_empty in *.
  destruct (u_base u) as [b|] eqn:Eb.
  - destruct (u_low u =? bn_n b)%nat eqn:E.
    + apply Nat.eqb_eq in E. cbv zeta. rewrite Eb. rewrite ckeys_nil by lia. rewrite app_nil_r.
      split; [reflexivity|]. split; [exact Ht|reflexivity].
    + apply Nat.eqb_neq in E. cbv zeta. cbn [u_base u_t].
      destruct (push_chunk_tinv b (u_t u) (u_low u) (bn_n b) Hb Ht ltac:(lia) ltac:(lia)) as [A B].
      split; [reflexivity|]. split; [exact A|exact B].
  - cbv zeta. rewrite Eb. rewrite ckeys_nil by (cbn; lia). rewrite app_nil_r.
    split; [reflexivity|]. split; [exact Ht|reflexivity].
Qed.

Theorem digest_sound : forall u cn nodes u' nm,
  uinv u -> digest true u cn = Some (nodes, u', nm) ->
  Forall built_ok nodes
  /\ carry (u_t u')
  /\ built_keys nodes ++ dkeys empty_node (t_ops (u_t u'))
     = dkeys (ubase u) (t_ops (u_t u)) ++ ckeys (ubase u) (u_low u) (bn_n (ubase u)).
Proof.
  intros u cn nodes u' nm Hu H.
  destruct (keep_up_to_end_spec u Hu) as [Hbase [Ht1 Hd1]].
  pose proof (ui_b u Hu) as Hb. pose proof (ui_k u Hu) as Hk. rewrite <- Hd1 in Hk.
  unfold digest in H. set (u1 := keep_up_to_end u) in *.
  set (b := ubase u) in *.
  assert (Hbb : match u_base u1 with Some b0 => b0 | None => empty_node end = b).
  { rewrite Hbase. reflexivity. }
  assert (Hbe : base_or_empty u1 = b).
  { unfold base_or_empty. rewrite Hbase. reflexivity. }
  set (ks := dkeys b (t_ops (u_t u1))) in *.
  (* the bulk split *)
  assert (S1 : exists n1 t1,
            (if BULK_THRESHOLD <? g_body (t_g (u_t u1))
             then try_split_all true (u_base u1) (u_t u1) BULK_TARGET []
             else Some ([], u_t u1)) = Some (n1, t1) ->
            True) by (exists [], t0; trivial).
  clear S1.
  destruct (if BULK_THRESHOLD <? g_body (t_g (u_t u1))
            then try_split_all true (u_base u1) (u_t u1) BULK_TARGET []
            else Some ([], u_t u1)) as [[n1 t1]|] eqn:E1; [|discriminate].
  assert (R1 : Forall built_ok n1 /\ tinv b t1 /\ g_body (t_g t1) <= BULK_THRESHOLD
               /\ built_keys n1 ++ dkeys b (t_ops t1) = ks).
  { destruct (BULK_THRESHOLD <? g_body (t_g (u_t u1))) eqn:Eb.
    - unfold try_split_all in E1.
      pose proof (split_loop_spec (S (ops_items (t_ops (u_t u1)))) (u_base u1) b (t_ops (u_t u1)) BULK_TARGET [] n1 t1 (eq_sym Hbb)) as Hs.
      destruct (Hs Hb (ti_wf _ _ Ht1) Hk ltac:(unfold BULK_TARGET; lia) ltac:(unfold BULK_TARGET, BODY; lia)
                   (Forall_nil _) E1) as [A [B [C D]]].
      split; [exact A|]. split; [exact B|]. split; [unfold BULK_THRESHOLD, BODY in *; lia|exact D].
    - apply N.ltb_ge in Eb. inversion E1; subst n1 t1.
      split; [constructor|]. split; [exact Ht1|]. split; [exact Eb|reflexivity]. }
  destruct R1 as [Hn1 [Ht1' [Hb1 Hd1']]].
  assert (Hk1 : kok (dkeys b (t_ops t1))) by (rewrite <- Hd1' in Hk; eapply kok_app_r; exact Hk).
  (* the split in two *)
  destruct (if BODY <? g_body (t_g t1)
            then try_split_all true (u_base u1) t1 (g_body (t_g t1) / 2) n1
            else Some (n1, t1)) as [[n2 t2]|] eqn:E2; [|discriminate].
  assert (R2 : Forall built_ok n2 /\ tinv b t2 /\ g_body (t_g t2) <= BODY
               /\ built_keys n2 ++ dkeys b (t_ops t2) = ks).
  { destruct (BODY <? g_body (t_g t1)) eqn:Eb.
    - apply N.ltb_lt in Eb. unfold try_split_all in E2.
      pose proof (split_loop_spec (S (ops_items (t_ops t1))) (u_base u1) b (t_ops t1) (g_body (t_g t1) / 2) n1 n2 t2 (eq_sym Hbb)) as Hs.
      assert (Hlo : 1 <= g_body (t_g t1) / 2).
      { assert (H2 : 4086 / 2 <= g_body (t_g t1) / 2) by (apply N.div_le_mono; unfold BODY in Eb; lia).
        change (4086 / 2) with 2043 in H2. lia. }
      assert (Hhi : g_body (t_g t1) / 2 <= BODY).
      { assert (H2 : g_body (t_g t1) / 2 <= 7354 / 2) by (apply N.div_le_mono; unfold BULK_THRESHOLD in Hb1; lia).
        change (7354 / 2) with 3677 in H2. unfold BODY. lia. }
      destruct (Hs Hb (ti_wf _ _ Ht1') Hk1 Hlo Hhi Hn1 E2) as [A [B [C D]]].
      split; [exact A|]. split; [exact B|]. split; [exact C|]. rewrite D. exact Hd1'.
    - apply N.ltb_ge in Eb. inversion E2; subst n2 t2.
      split; [exact Hn1|]. split; [exact Ht1'|]. split; [exact Eb|exact Hd1']. }
  destruct R2 as [Hn2 [Ht2 [Hb2 Hd2]]].
  assert (Hk2 : kok (dkeys b (t_ops t2))) by (rewrite <- Hd2 in Hk; eapply kok_app_r; exact Hk).
  rewrite <- Hd1. fold ks.
  destruct (g_body (t_g t2) =? 0) eqn:Ez.
  - (* nothing left *)
    apply N.eqb_eq in Ez. inversion H; subst nodes u' nm. cbn [u_t].
    pose proof (g_body_zero _ _ (ti_g _ _ Ht2) Ez) as Hnil.
    pose proof (dkeys_nil_ops b _ Hb (ti_wf _ _ Ht2) Hnil) as Hops.
    split; [exact Hn2|]. split.
    + unfold carry. rewrite Hops. split; [reflexivity|]. split; [|split; [exact I|intros k []]].
      apply (tinv_rebase b empty_node t2 Ht2). rewrite Hops. reflexivity.
    + rewrite Hops. rewrite Hops in Hd2. exact Hd2.
  - apply N.eqb_neq in Ez.
    destruct ((MERGE <=? g_body (t_g t2)) || cn) eqn:Em.
    + (* the remaining operations become a node *)
      assert (Hne : dkeys b (t_ops t2) <> []).
      { intros Hnil. pose proof (ti_g _ _ Ht2) as Hg. rewrite Hnil in Hg. apply gauge_inv_nil in Hg.
        rewrite Hg in Ez. apply Ez. reflexivity. }
      pose proof (build_ok (u_base u1) (t_ops t2) (t_g t2)) as Hbo. cbv zeta in Hbo. rewrite Hbb in Hbo.
      destruct (Hbo Hb (ti_wf _ _ Ht2) (ti_g _ _ Ht2) (ti_pc _ _ Ht2) Hne Hk2 Hb2) as [m [Eb [Hok Hmk]]].
      rewrite Eb in H. inversion H; subst nodes u' nm. cbn [u_t t0 t_ops].
      split; [apply Forall_app; split; [exact Hn2|constructor; [exact Hok|constructor]]|].
      split.
      * unfold carry. cbn [t0 t_ops t_g]. split; [reflexivity|]. split; [|split; [exact I|intros k []]].
        constructor; cbn [t0 t_ops t_g]; [constructor|apply gauge_inv_g0|exact I].
      * cbn [dkeys flat_map]. rewrite app_nil_r, built_keys_app. unfold built_keys at 2. cbn [flat_map].
        rewrite app_nil_r. unfold nkeys. rewrite Hmk. exact Hd2.
    + (* NeedsMerge: everything becomes an insertion *)
      inversion H; subst nodes u' nm. cbn [u_t t_ops t_g]. rewrite Hbe.
      destruct (flat_expand_dkeys b (t_ops t2) Hb (ti_wf _ _ Ht2)) as [Hfd Hfa].
      assert (Htn : tinv b (mkT (flat_map (expand b) (t_ops t2)) (t_g t2))).
      { destruct Ht2 as [Hw Hg Hp]. constructor; cbn [t_ops t_g].
        - apply all_inserts_wf. exact Hfa.
        - rewrite Hfd. exact Hg.
        - destruct (g_pc (t_g t2)) as [c|]; [|exact I]. destruct Hp as [o1 [o2 [E [L A]]]].
          exists (flat_map (expand b) o1), (flat_map (expand b) o2).
          rewrite E, Forall_app in Hw. destruct Hw as [Hw1 Hw2].
          split; [rewrite E; apply flat_map_app|].
          destruct (flat_expand_dkeys b o1 Hb Hw1) as [A1 _].
          destruct (flat_expand_dkeys b o2 Hb Hw2) as [_ A2].
          split; [rewrite A1; exact L|exact A2]. }
      split; [exact Hn2|]. split.
      * unfold carry. cbn [t_ops t_g]. split; [exact Hfa|].
        split; [apply (tinv_rebase b empty_node _ Htn); exact Hfa|].
        rewrite (all_inserts_dkeys empty_node b _ Hfa), Hfd. exact Hk2.
      * rewrite (all_inserts_dkeys empty_node b _ Hfa), Hfd. exact Hd2.
Qed.

(* ------------------------------------------------------------------------------------------- *)
(* ingest: the separators the tracker denotes stay ascending                                     *)

Lemma asc_cons_iff : forall a l, asc (a :: l) <-> (forall y, In y l -> key_ltb a y = true) /\ asc l.
Proof.
  intros a l. split.
  - intros H. split; [intros y Hy; eapply asc_head_lt; eassumption|eapply asc_tail; exact H].
  - intros [H1 H2]. destruct l as [|b r]; [exact I|]. cbn [asc]. split; [apply H1; left; reflexivity|exact H2].
Qed.

Lemma asc_app_iff : forall a b,
  asc (a ++ b) <-> asc a /\ asc b /\ (forall x y, In x a -> In y b -> key_ltb x y = true).
Proof.
  induction a as [|x a IH]; intros b.
  - cbn [app]. split; [intros H; repeat split; [exact H|intros x y []]|intros [_ [H _]]; exact H].
  - cbn [app]. rewrite !asc_cons_iff, IH. split.
    + intros [H1 [H2 [H3 H4]]]. repeat split; try assumption.
      * intros y Hy. apply H1. apply in_or_app. left. exact Hy.
      * intros x' y [->|Hx] Hy; [apply H1; apply in_or_app; right; exact Hy|apply H4; assumption].
    + intros [[H1 H2] [H3 H4]]. repeat split; try assumption.
      * intros y Hy. apply in_app_or in Hy. destruct Hy as [Hy|Hy]; [apply H1; exact Hy|apply H4; [left; reflexivity|exact Hy]].
      * intros x' y Hx Hy. apply H4; [right; exact Hx|exact Hy].
Qed.

Lemma kok_insert : forall D K1 K2 k,
  kok (D ++ K1 ++ K2) -> length k = 256%nat ->
  (forall x, In x D -> key_ltb x k = true) -> (forall x, In x K1 -> key_ltb x k = true) ->
  (forall y, In y K2 -> key_ltb k y = true) ->
  kok (D ++ K1 ++ [k] ++ K2).
Proof.
  intros D K1 K2 k [Ha Hl] Hk HD HK1 HK2.
  apply asc_app_iff in Ha. destruct Ha as [A1 [A2 A3]].
  apply asc_app_iff in A2. destruct A2 as [B1 [B2 B3]].
  split.
  - apply asc_app_iff. split; [exact A1|]. split.
    + apply asc_app_iff. split; [exact B1|]. split.
      * cbn [app]. apply asc_cons_iff. split; [exact HK2|exact B2].
      * intros x y Hx [<-|Hy]; [apply HK1; exact Hx|apply B3; assumption].
    + intros x y Hx Hy. apply in_app_or in Hy. destruct Hy as [Hy|[<-|Hy]].
      * apply A3; [exact Hx|apply in_or_app; left; exact Hy].
      * apply HD. exact Hx.
      * apply A3; [exact Hx|apply in_or_app; right; exact Hy].
  - intros x Hx. apply in_app_or in Hx. destruct Hx as [Hx|Hx]; [apply Hl; apply in_or_app; left; exact Hx|].
    apply in_app_or in Hx. destruct Hx as [Hx|[<-|Hx]]; [|exact Hk|].
    + apply Hl. apply in_or_app. right. apply in_or_app. left. exact Hx.
    + apply Hl. apply in_or_app. right. apply in_or_app. right. exact Hx.
Qed.

Lemma kok_remove : forall D K1 k K2, kok (D ++ K1 ++ [k] ++ K2) -> kok (D ++ K1 ++ K2).
Proof.
  intros D K1 k K2 [Ha Hl].
  apply asc_app_iff in Ha. destruct Ha as [A1 [A2 A3]].
  apply asc_app_iff in A2. destruct A2 as [B1 [B2 B3]].
  cbn [app] in B2. apply asc_cons_iff in B2. destruct B2 as [_ B2].
  split.
  - apply asc_app_iff. split; [exact A1|]. split.
    + apply asc_app_iff. split; [exact B1|]. split; [exact B2|].
      intros x y Hx Hy. apply B3; [exact Hx|right; exact Hy].
    + intros x y Hx Hy. apply A3; [exact Hx|]. apply in_app_or in Hy. apply in_or_app.
      destruct Hy as [Hy|Hy]; [left; exact Hy|right; right; exact Hy].
  - intros x Hx. apply Hl. apply in_app_or in Hx. apply in_or_app.
    destruct Hx as [Hx|Hx]; [left; exact Hx|right].
    apply in_app_or in Hx. apply in_or_app. destruct Hx as [Hx|Hx]; [left; exact Hx|right; right; exact Hx].
Qed.

Lemma nth_skipn_add : forall (A : Type) (l : list A) s j d, nth j (skipn s l) d = nth (s + j) l d.
Proof.
  intros A l. induction l as [|x l IH]; intros s j d.
  - rewrite skipn_nil. destruct j, s; reflexivity.
  - destruct s as [|s]; [reflexivity|]. cbn [skipn Nat.add nth]. apply IH.
Qed.

Lemma find_from_spec : forall items k i found pos,
  find_from items k i = (found, pos) ->
  exists j, pos = (i + j)%nat /\ (j <= length items)%nat
    /\ (forall x, In x (map it_key (firstn j items)) -> key_ltb x k = true)
    /\ (if found then (j < length items)%nat /\ it_key (nth j items ditem) = k
        else (j < length items)%nat -> key_ltb k (it_key (nth j items ditem)) = true).
Proof.
  induction items as [|it r IH]; intros k i found pos H; cbn [find_from] in H.
  - inversion H; subst. exists 0%nat. cbn. repeat split; try lia; intros; try contradiction; lia.
  - destruct (key_eqb (it_key it) k) eqn:Ee.
    + inversion H; subst. apply key_eqb_true_iff in Ee. exists 0%nat. cbn.
      repeat split; try lia; try exact Ee; intros; contradiction.
    + destruct (key_ltb k (it_key it)) eqn:El.
      * inversion H; subst. exists 0%nat. cbn.
        repeat split; try lia; try (intros; exact El); intros; contradiction.
      * destruct (IH k (S i) found pos H) as [j [Hp [Hj [Hlt Hf]]]].
        exists (S j). cbn [length firstn map nth]. repeat split; try lia.
        -- intros x [<-|Hx]; [|apply Hlt; exact Hx].
           apply key_eqb_false_iff in Ee.
           destruct (key_trichotomy (it_key it) k) as [T|[T|T]]; [exact T|contradiction|congruence].
        -- destruct found.
           ++ destruct Hf as [A B]. split; [lia|exact B].
           ++ intros Hl. apply Hf. lia.
Qed.

(* keep_up_to(Some(key)) *)
Lemma keep_up_to_key_spec : forall u k,
  uinv u -> length k = 256%nat ->
  (forall x, In x (dkeys (ubase u) (t_ops (u_t u))) -> key_ltb x k = true) ->
  let b := ubase u in
  let res := fst (keep_up_to_key u k) in
  let u1 := snd (keep_up_to_key u k) in
  u_base u1 = u_base u /\ bwf b /\ (u_low u1 <= bn_n b)%nat /\ tinv b (u_t u1)
  /\ (forall x, In x (dkeys b (t_ops (u_t u1))) -> key_ltb x k = true)
  /\ match res with
     | Some pos =>
         u_low u1 = S pos /\ (pos < bn_pc b \/ pos < bn_n b)%nat /\ (pos < bn_n b)%nat /\ bkey b pos = k
         /\ kok (dkeys b (t_ops (u_t u1)) ++ [] ++ [k] ++ ckeys b (S pos) (bn_n b))
     | None =>
         kok (dkeys b (t_ops (u_t u1)) ++ [] ++ ckeys b (u_low u1) (bn_n b))
         /\ (forall y, In y (ckeys b (u_low u1) (bn_n b)) -> key_ltb k y = true)
     end.
Proof.
  intros u k Hu Hk Hlt b res u1. destruct Hu as [Hb Hl Ht Hkok]. fold b in Hb, Hl, Ht, Hkok, Hlt.
  unfold res, u1, keep_up_to_key. clear res u1.
  assert (Hnone : u_low u = bn_n b ->
            kok (dkeys b (t_ops (u_t u)) ++ [] ++ ckeys b (u_low u) (bn_n b))
            /\ (forall y, In y (ckeys b (u_low u) (bn_n b)) -> key_ltb k y = true)).
  { intros E. rewrite ckeys_nil by lia. split; [rewrite ckeys_nil in Hkok by lia; exact Hkok|intros y []]. }
  destruct (u_base u) as [b0|] eqn:Eb.
  2:{ cbn [fst snd]. rewrite Eb. refine (conj eq_refl (conj Hb (conj Hl (conj Ht (conj Hlt _))))).
      apply Hnone. clear -Hl Eb. unfold b, ubase, base_or_empty in *. rewrite Eb in *. cbn in *. lia. }
  assert (Hbb : b0 = b) by (unfold b, ubase, base_or_empty; rewrite Eb; reflexivity). subst b0.
  destruct (u_low u =? bn_n b)%nat eqn:En.
  { apply Nat.eqb_eq in En. cbn [fst snd]. rewrite Eb.
    refine (conj eq_refl (conj Hb (conj Hl (conj Ht (conj Hlt _))))). apply Hnone. exact En. }
  apply Nat.eqb_neq in En.
  destruct (find_from (skipn (u_low u) (bn_items b)) k (u_low u)) as [found pos] eqn:Ef.
  destruct (find_from_spec _ _ _ _ _ Ef) as [j [Hpos [Hj [Hbelow Hat]]]].
  rewrite skipn_length in Hj. fold (bn_n b) in Hj.
  assert (Hck : map it_key (firstn j (skipn (u_low u) (bn_items b))) = ckeys b (u_low u) pos).
  { unfold ckeys, items_range. do 2 f_equal. lia. }
  rewrite Hck in Hbelow.
  assert (Hnth : nth j (skipn (u_low u) (bn_items b)) ditem = bitem_at b pos).
  { rewrite nth_skipn_add. unfold bitem_at. f_equal. lia. }
  rewrite Hnth in Hat. fold (bkey b pos) in Hat. rewrite skipn_length in Hat. fold (bn_n b) in Hat.
  (* the tracker after keeping [low, pos) *)
  assert (Hchunk : exists t1, (if (u_low u =? pos)%nat then u_t u else push_chunk (u_t u) b (u_low u) pos) = t1
             /\ tinv b t1 /\ dkeys b (t_ops t1) = dkeys b (t_ops (u_t u)) ++ ckeys b (u_low u) pos).
  { destruct (u_low u =? pos)%nat eqn:Ep.
    - apply Nat.eqb_eq in Ep. eexists. split; [reflexivity|]. split; [exact Ht|].
      rewrite ckeys_nil by lia. rewrite app_nil_r. reflexivity.
    - apply Nat.eqb_neq in Ep. eexists. split; [reflexivity|].
      apply push_chunk_tinv; try assumption; lia. }
  destruct Hchunk as [t1 [Et1 [Ht1 Hd1]]].
  assert (Hlt1 : forall x, In x (dkeys b (t_ops t1)) -> key_ltb x k = true).
  { intros x Hx. rewrite Hd1 in Hx. apply in_app_or in Hx. destruct Hx as [Hx|Hx]; [apply Hlt|apply Hbelow]; exact Hx. }
  assert (Hsplit : ckeys b (u_low u) (bn_n b) = ckeys b (u_low u) pos ++ ckeys b pos (bn_n b))
    by (apply ckeys_app; lia).
  destruct found.
  - destruct Hat as [Hjl Hkey]. cbn [fst snd u_base u_low u_t]. rewrite Et1.
    split; [reflexivity|]. split; [exact Hb|]. split; [lia|]. split; [exact Ht1|]. split; [exact Hlt1|].
    split; [reflexivity|]. split; [right; lia|]. split; [lia|]. split; [exact Hkey|].
    rewrite Hd1, Hsplit, (ckeys_cons b pos (bn_n b)), Hkey in * by lia.
    cbn [app]. rewrite <- app_assoc in *. exact Hkok.
  - destruct (pos =? u_low u)%nat eqn:Ep.
    + apply Nat.eqb_eq in Ep. cbn [fst snd]. rewrite Eb.
      split; [reflexivity|]. split; [exact Hb|]. split; [exact Hl|]. split; [exact Ht|]. split; [exact Hlt|].
      split; [exact Hkok|].
      intros y Hy. rewrite (ckeys_cons b (u_low u) (bn_n b)) in Hy by lia.
      assert (H0 : key_ltb k (bkey b (u_low u)) = true) by (rewrite <- Ep; apply Hat; lia).
      destruct Hy as [<-|Hy]; [exact H0|].
      eapply key_ltb_trans; [exact H0|].
      destruct Hkok as [Ha _]. apply asc_app_r in Ha. rewrite (ckeys_cons b (u_low u) (bn_n b)) in Ha by lia.
      eapply asc_head_lt; eassumption.
    + apply Nat.eqb_neq in Ep. cbn [fst snd u_base u_low u_t].
      assert (Et1' : push_chunk (u_t u) b (u_low u) pos = t1).
      { rewrite <- Et1. replace (u_low u =? pos)%nat with false by (symmetry; apply Nat.eqb_neq; lia). reflexivity. }
      rewrite Et1'.
      split; [reflexivity|]. split; [exact Hb|]. split; [lia|]. split; [exact Ht1|]. split; [exact Hlt1|].
      split.
      * cbn [app]. rewrite Hd1, <- app_assoc, <- Hsplit. exact Hkok.
      * intros y Hy. destruct (Nat.eq_dec pos (bn_n b)) as [Epn|Epn]; [rewrite ckeys_nil in Hy by lia; destruct Hy|].
        rewrite (ckeys_cons b pos (bn_n b)) in Hy by lia.
        assert (H0 : key_ltb k (bkey b pos) = true) by (apply Hat; lia).
        destruct Hy as [<-|Hy]; [exact H0|].
        eapply key_ltb_trans; [exact H0|].
        destruct Hkok as [Ha _]. apply asc_app_r in Ha. rewrite Hsplit in Ha. apply asc_app_r in Ha.
        rewrite (ckeys_cons b pos (bn_n b)) in Ha by lia.
        eapply asc_head_lt; eassumption.
Qed.

Lemma ingest_step : forall u k pn,
  uinv u -> length k = 256%nat ->
  (forall x, In x (dkeys (ubase u) (t_ops (u_t u))) -> key_ltb x k = true) ->
  uinv (u_ingest u k pn) /\ u_base (u_ingest u k pn) = u_base u
  /\ (forall x, In x (dkeys (ubase u) (t_ops (u_t (u_ingest u k pn)))) -> x = k \/ key_ltb x k = true).
Proof.
  intros u k pn Hu Hk Hlt.
  pose proof (keep_up_to_key_spec u k Hu Hk Hlt) as Hs. cbv zeta in Hs.
  unfold u_ingest. destruct (keep_up_to_key u k) as [res u1] eqn:E. cbn [fst snd] in Hs.
  set (b := ubase u) in *.
  destruct Hs as [Hbase [Hb [Hl [Ht [Hlt1 Hres]]]]].
  assert (Hub : forall t l, ubase (mkU (u_base u1) l t) = b).
  { intros t l. unfold ubase, base_or_empty. cbn [u_base]. rewrite Hbase. reflexivity. }
  assert (Hub1 : ubase u1 = b) by (unfold ubase, base_or_empty; rewrite Hbase; reflexivity).
  assert (Hboe : base_or_empty u1 = b) by exact Hub1.
  destruct pn as [p|].
  - destruct res as [pos|].
    + destruct Hres as [Hlow [_ [Hpos [Hkey Hkok]]]]. cbn [app] in Hkok.
      rewrite Hboe.
      destruct (push_update_tinv b (u_t u1) pos p Ht) as [Ht' Hd']. rewrite Hkey in Hd'.
      split; [|split; [exact Hbase|]].
      * constructor; rewrite ?Hub; cbn [u_low u_t]; try assumption.
        rewrite Hd', <- app_assoc, Hlow. exact Hkok.
      * cbn [u_t]. intros x Hx. rewrite Hd' in Hx. apply in_app_or in Hx.
        destruct Hx as [Hx|[<-|[]]]; [right; apply Hlt1; exact Hx|left; reflexivity].
    + destruct Hres as [Hkok Hgt]. cbn [app] in Hkok.
      destruct (push_insert_tinv b (u_t u1) k p Ht) as [Ht' Hd'].
      split; [|split; [exact Hbase|]].
      * constructor; rewrite ?Hub; cbn [u_low u_t]; try assumption.
        rewrite Hd', <- app_assoc.
        apply (kok_insert (dkeys b (t_ops (u_t u1))) [] _ k Hkok Hk Hlt1); [intros x []|exact Hgt].
      * cbn [u_t]. intros x Hx. rewrite Hd' in Hx. apply in_app_or in Hx.
        destruct Hx as [Hx|[<-|[]]]; [right; apply Hlt1; exact Hx|left; reflexivity].
  - split; [|split; [exact Hbase|intros x Hx; right; apply Hlt1; exact Hx]].
    constructor; rewrite ?Hub1; try assumption.
    destruct res as [pos|].
    + destruct Hres as [Hlow [_ [Hpos [Hkey Hkok]]]]. rewrite Hlow.
      apply (kok_remove _ [] k _ Hkok).
    + destruct Hres as [Hkok _]. exact Hkok.
Qed.

Lemma ingest_all : forall ops u,
  uinv u ->
  (forall kp, In kp ops -> length (fst kp) = 256%nat) -> asc (map fst ops) ->
  (forall x kp, In x (dkeys (ubase u) (t_ops (u_t u))) -> In kp ops -> key_ltb x (fst kp) = true) ->
  let u' := fold_left (fun u kp => u_ingest u (fst kp) (snd kp)) ops u in
  uinv u' /\ u_base u' = u_base u.
Proof.
  induction ops as [|[k pn] r IH]; intros u Hu Hlen Hasc Hlt; cbn [fold_left].
  - split; [exact Hu|reflexivity].
  - cbn [fst snd map] in *.
    destruct (ingest_step u k pn Hu (Hlen (k, pn) ltac:(left; reflexivity))) as [Hu' [Hb' Hle]].
    { intros x Hx. apply (Hlt x (k, pn) Hx). left. reflexivity. }
    assert (Hub : ubase (u_ingest u k pn) = ubase u) by (unfold ubase, base_or_empty; rewrite Hb'; reflexivity).
    destruct (IH (u_ingest u k pn) Hu') as [A B].
    + intros kp Hkp. apply Hlen. right. exact Hkp.
    + eapply asc_tail. exact Hasc.
    + intros x kp Hx Hkp. rewrite Hub in Hx.
      assert (Hkk : key_ltb k (fst kp) = true).
      { apply (asc_head_lt k (map fst r)); [exact Hasc|]. apply in_map. exact Hkp. }
      destruct (Hle x Hx) as [->|Hxk]; [exact Hkk|]. eapply key_ltb_trans; eassumption.
    + split; [exact A|]. rewrite B. exact Hb'.
Qed.

(* one base node with the separators ingested while it is the base *)
Definition stage_ok (t : tracker) (sg : stage) : Prop :=
  let b := match sg_base sg with Some b => b | None => empty_node end in
  match sg_base sg with Some b => node_wf b = true | None => True end
  /\ kok (dkeys empty_node (t_ops t) ++ map it_key (bn_items b))
  /\ (forall kp, In kp (sg_ops sg) -> length (fst kp) = 256%nat)
  /\ asc (map fst (sg_ops sg))
  /\ (forall x kp, In x (dkeys empty_node (t_ops t)) -> In kp (sg_ops sg) -> key_ltb x (fst kp) = true).

Theorem run_stage_sound : forall u sg nodes u' nm,
  carry (u_t u) -> stage_ok (u_t u) sg -> run_stage true u sg = Some (nodes, u', nm) ->
  Forall built_ok nodes /\ carry (u_t u').
Proof.
  intros u sg nodes u' nm [Ha [Ht Hk]] [Hwf [Hkok [Hlen [Hasc Hlt]]]] H.
  unfold run_stage in H.
  set (b := match sg_base sg with Some b => b | None => empty_node end) in *.
  set (u1 := reset_base u (sg_base sg)) in *.
  assert (Hub : ubase u1 = b) by reflexivity.
  assert (Hb : bwf b).
  { unfold b. destruct (sg_base sg) as [b0|]; [apply node_wf_bwf; exact Hwf|apply bwf_empty]. }
  assert (Hu1 : uinv u1).
  { constructor; rewrite Hub; cbn [u1 reset_base u_low u_t].
    - exact Hb.
    - lia.
    - apply (tinv_rebase empty_node b _ Ht Ha).
    - rewrite (all_inserts_dkeys b empty_node _ Ha), ckeys_all. exact Hkok. }
  destruct (ingest_all (sg_ops sg) u1 Hu1 Hlen Hasc) as [Hu2 Hb2].
  { intros x kp Hx Hkp. rewrite Hub in Hx. cbn [u1 reset_base u_t] in Hx.
    rewrite (all_inserts_dkeys b empty_node _ Ha) in Hx. apply (Hlt x kp Hx Hkp). }
  cbv zeta in Hu2, Hb2.
  destruct (digest_sound _ _ _ _ _ Hu2 H) as [A [B _]]. split; assumption.
Qed.

(* ------------------------------------------------------------------------------------------- *)
(* the results                                                                                   *)

(* --- one node, any operations the tracker can hold.  [b] is the base node (the empty node when
   there is none), [ops] operations that refer to prefix-compressed separators of [b] with correct
   chunk sums, [g] the gauge that ingested them (possibly with compression stopped after the first
   separators, after which only insertions follow), the denoted separators ascending 256-bit keys.
   Then build_branch (with the repair a637aba) does not panic and writes a node whose body size is
   exactly what the gauge says, with canonical stored lengths, that has the shape of a base node. *)
Theorem gauge_exact_build : forall ob ops g,
  let b := match ob with Some b => b | None => empty_node end in
  bwf b -> Forall (op_wf b) ops -> gauge_inv g (dkeys b ops) -> pc_split b (g_pc g) ops ->
  dkeys b ops <> [] -> kok (dkeys b ops) ->
  exists m, build_branch true ob ops g = Some m
    /\ bo_gauge_body m = g_body g
    /\ node_body (bo_node m) = g_body g
    /\ map it_key (bn_items (bo_node m)) = dkeys b ops
    /\ canonical (bo_node m) = true
    /\ (g_body g <= BODY -> node_wf (bo_node m) = true).
Proof.
  intros ob ops g b Hb Hw Hg Hp Hne Hk.
  destruct (build_branch_spec ob ops g Hb Hw Hg Hp Hne) as [m [E [M1 [M2 [M3 [M4 [M5 [M6 M7]]]]]]]].
  fold b in M2, M3, M6, M7.
  destruct Hk as [Ha Hl].
  pose proof (gauge_lb g _ Hg Hne Ha Hl) as Hlb.
  destruct (body_exact g _ Hg Hne Hlb) as [Hex _].
  assert (Hn : bn_n (bo_node m) = length (dkeys b ops)).
  { unfold bn_n. rewrite <- M6, map_length. reflexivity. }
  exists m. split; [exact E|]. split; [exact M1|]. split.
  { unfold node_body. rewrite M4, M7, Hn, Hex. reflexivity. }
  split; [exact M6|]. split.
  { unfold canonical. rewrite M4, M5. apply canon_from_slens. rewrite M6. exact M7. }
  intros _. apply (built_wf g (dkeys b ops)); try assumption. split; assumption.
Qed.

(* the subtraction in compressed_separator_range_size does not underflow *)
Theorem gauge_no_underflow : forall g ks,
  gauge_inv g ks -> ks <> [] -> kok ks ->
  match g_first g with
  | Some (_, fl) => N.of_nat (pc_items g - 1) * g_plen g <= (fl - g_plen g) + g_sum g
  | None => False
  end.
Proof.
  intros g ks Hg Hne [Ha Hl].
  destruct (body_exact g ks Hg Hne (gauge_lb g ks Hg Hne Ha Hl)) as [_ [_ H]]. exact H.
Qed.

(* --- the updater.  [carry]: what a digest leaves in the tracker (insertions only);
   [stage_ok]: the base node is node_wf, the separators left over from the previous base followed by
   those of the base are ascending 256-bit keys, the ingested keys are ascending 256-bit keys above
   the separators left over. *)
Theorem gauge_exact : forall u sg nodes u' nm,
  carry (u_t u) -> stage_ok (u_t u) sg -> run_stage true u sg = Some (nodes, u', nm) ->
  forall m, In m nodes -> bo_gauge_body m = node_body (bo_node m).
Proof.
  intros u sg nodes u' nm Hc Hs H m Hm. destruct (run_stage_sound u sg nodes u' nm Hc Hs H) as [A _].
  rewrite Forall_forall in A. destruct (A m Hm) as [B _]. exact B.
Qed.

Theorem built_node_fits : forall u sg nodes u' nm,
  carry (u_t u) -> stage_ok (u_t u) sg -> run_stage true u sg = Some (nodes, u', nm) ->
  forall m, In m nodes ->
    node_body (bo_node m) <= BODY
    /\ BRANCH_HEADER + 2 * N.of_nat (bn_n (bo_node m))
       + (bn_plen (bo_node m) + sumN (map it_len (bn_items (bo_node m))) + 7) / 8
       <= PAGE - 4 * N.of_nat (bn_n (bo_node m)).
Proof.
  intros u sg nodes u' nm Hc Hs H m Hm. destruct (run_stage_sound u sg nodes u' nm Hc Hs H) as [A _].
  rewrite Forall_forall in A. destruct (A m Hm) as [_ [B _]]. split; [exact B|].
  unfold node_body, body_size, BODY in B. unfold BRANCH_HEADER, PAGE. lia.
Qed.

Theorem built_node_canonical : forall u sg nodes u' nm,
  carry (u_t u) -> stage_ok (u_t u) sg -> run_stage true u sg = Some (nodes, u', nm) ->
  (forall m, In m nodes -> node_wf (bo_node m) = true /\ canonical (bo_node m) = true
                           /\ bo_n m = bn_n (bo_node m) /\ bo_pushed m = bn_n (bo_node m))
  /\ carry (u_t u').
Proof.
  intros u sg nodes u' nm Hc Hs H. destruct (run_stage_sound u sg nodes u' nm Hc Hs H) as [A B].
  split; [|exact B]. intros m Hm.
  rewrite Forall_forall in A. destruct (A m Hm) as [_ [_ [W [N1 N2]]]].
  split; [exact W|]. split; [|split; assumption].
  unfold node_wf in W. apply andb_true_iff in W. destruct W as [_ W]. exact W.
Qed.

(* along a history of stages: the invariant is inductive *)
Fixpoint stages_ok (u : updater) (sgs : list stage) : Prop :=
  match sgs with
  | [] => True
  | sg :: r =>
      stage_ok (u_t u) sg
      /\ forall nodes u' nm, run_stage true u sg = Some (nodes, u', nm) -> stages_ok u' r
  end.

Theorem run_stages_sound : forall sgs u res,
  carry (u_t u) -> stages_ok u sgs -> run_stages true u sgs = Some res ->
  forall nodes nm left m, In (nodes, nm, left) res -> In m nodes -> built_ok m.
Proof.
  induction sgs as [|sg r IH]; intros u res Hc Hs H nodes nm left m Hin Hm; cbn [run_stages] in H.
  - inversion H; subst. destruct Hin.
  - destruct Hs as [Hs1 Hs2].
    destruct (run_stage true u sg) as [[[nodes1 u1] nm1]|] eqn:E1; [|discriminate].
    destruct (run_stages true u1 r) as [rest|] eqn:E2; [|discriminate].
    inversion H; subst res.
    destruct (run_stage_sound u sg nodes1 u1 nm1 Hc Hs1 E1) as [A B].
    destruct Hin as [Hin|Hin].
    + inversion Hin; subst. rewrite Forall_forall in A. apply A. exact Hm.
    + apply (IH u1 rest B (Hs2 _ _ _ eq_refl) E2 nodes nm left m Hin Hm).
Qed.

Lemma carry_t0 : carry t0.
Proof.
  split; [reflexivity|]. split; [|split; [exact I|intros k []]].
  constructor; cbn; [constructor|apply gauge_inv_g0|exact I].
Qed.

(* --- the code before a637aba (defect N12).  push_chunk derived the length of EVERY separator of
   the chunk from the cell of the base: stored = cell + (base prefix_len - new prefix_len) when the
   prefix gets shorter.  For a first separator shorter than the prefix of the base the cell is 0 and
   this is not the length the gauge accounts for. *)
Lemma unfixed_first_len : forall b P,
  bwf b -> (0 < bn_n b)%nat -> (0 < bn_pc b)%nat -> sl (bkey b 0) < bn_plen b -> P < bn_plen b ->
  shifted_len (bn_plen b) P (it_len (bitem_at b 0)) = bn_plen b - P
  /\ canon_len P true (bkey b 0) < bn_plen b - P.
Proof.
  intros b P Hb Hn Hpc Hsl HP. rewrite (bwf_canon b Hb 0%nat Hn).
  replace (0 <? bn_pc b)%nat with true by (symmetry; apply Nat.ltb_lt; exact Hpc).
  unfold canon_len, shifted_len. replace (P <? bn_plen b) with true by (symmetry; apply N.ltb_lt; exact HP).
  split; lia.
Qed.

Definition rf_k0 : key := kbits [].
Definition rf_k1 : key := kbits (repeat false 20 ++ [true; false; true]).
Definition rf_k2 : key := kbits (repeat false 20 ++ [true; true]).
Definition rf_k3 : key := kbits [true; true].
Definition rf_base : bnode := mkNode 20 3 [mkItem rf_k0 0 10; mkItem rf_k1 3 11; mkItem rf_k2 2 12].
Definition rf_stage : stage := mkStage (Some rf_base) [(rf_k3, Some 13)] true.

Lemma stage_ok_dec : forall t sg,
  match sg_base sg with Some b => node_wf b | None => true end = true ->
  ascending (dkeys empty_node (t_ops t)
             ++ map it_key (bn_items (match sg_base sg with Some b => b | None => empty_node end))) = true ->
  forallb (fun k => Nat.eqb (length k) 256)
          (dkeys empty_node (t_ops t)
           ++ map it_key (bn_items (match sg_base sg with Some b => b | None => empty_node end))) = true ->
  forallb (fun kp => Nat.eqb (length (fst kp)) 256) (sg_ops sg) = true ->
  ascending (map fst (sg_ops sg)) = true ->
  forallb (fun x => forallb (fun kp => key_ltb x (fst kp)) (sg_ops sg)) (dkeys empty_node (t_ops t)) = true ->
  stage_ok t sg.
Proof.
  intros t sg H1 H2 H3 H4 H5 H6. unfold stage_ok. split; [destruct (sg_base sg); [exact H1|exact I]|].
  split; [split; [apply ascending_asc; exact H2|]|].
  { rewrite forallb_forall in H3. intros k Hk. apply Nat.eqb_eq. apply H3. exact Hk. }
  split. { rewrite forallb_forall in H4. intros kp Hkp. apply Nat.eqb_eq. apply H4. exact Hkp. }
  split; [apply ascending_asc; exact H5|].
  intros x kp Hx Hkp. rewrite forallb_forall in H6. specialize (H6 x Hx).
  rewrite forallb_forall in H6. apply H6. exact Hkp.
Qed.

Lemma rf_stage_ok : stage_ok t0 rf_stage.
Proof. apply stage_ok_dec; vm_compute; reflexivity. Qed.

(* without the repair, gauge_exact and built_node_canonical fail on a stage that satisfies their
   hypotheses: keep [0, 0^20 101, 0^20 11] (prefix 20 bits), insert 11 behind (prefix 0 bits): the
   gauge accounts 1 + 23 + 22 + 2 = 48 bits (30 bytes), the builder stores 20 + 23 + 22 + 2 = 67 bits
   (33 bytes) *)
Theorem gauge_exact_refuted :
  carry t0 /\ stage_ok t0 rf_stage
  /\ exists m u' nm,
       run_stage false u0 rf_stage = Some ([m], u', nm)
       /\ bo_gauge_body m = 30 /\ node_body (bo_node m) = 33
       /\ map it_len (bn_items (bo_node m)) = [20; 23; 22; 2]
       /\ canonical (bo_node m) = false.
Proof.
  split; [exact carry_t0|]. split; [exact rf_stage_ok|].
  destruct (run_stage false u0 rf_stage) as [[[nodes u'] nm]|] eqn:E; [|vm_compute in E; discriminate].
  vm_compute in E. inversion E; subst. eexists _, _, _. split; [reflexivity|]. vm_compute. repeat split.
Qed.

(* with the repair the same stage gives 30 = 30 *)
Example gauge_exact_rf_fixed :
  match run_stage true u0 rf_stage with
  | Some ([m], _, _) => (bo_gauge_body m, node_body (bo_node m), map it_len (bn_items (bo_node m)))
  | _ => (0, 0, [])
  end = (30, 30, [1; 23; 22; 2]).
Proof. vm_compute. reflexivity. Qed.
