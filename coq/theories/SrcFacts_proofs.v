(* Lemmas over the facts regenerated from the Rust source on every run (Gen/SrcFacts.v):
   constants the models assume and the result-checking facts of the fault model (the textual step orders
   live in SrcOrder_diag.v and are diagnostics only).
   Each is a decidable fact about finite lists, re-proved by computation whenever the source
   changes; a change of order makes the corresponding lemma fail. *)
From Coq Require Import List NArith String Bool Arith.
From Nomt.Gen Require Import SrcFacts.
Import ListNotations.
Open Scope string_scope.

Definition constants_ok : bool :=
  N.eqb c_PAGE_SIZE 4096 && N.eqb c_DEPTH 6 &&
  N.eqb c_NODES_PER_PAGE (2 ^ (c_DEPTH + 1) - 2) &&
  N.eqb c_NUM_CHILDREN (2 ^ c_DEPTH) && N.eqb c_MAX_COMMIT_CONCURRENCY c_NUM_CHILDREN &&
  N.eqb (c_MAX_PAGE_DEPTH * c_DEPTH) 252 &&
  N.eqb c_PAGE_ELISION_THRESHOLD 20 &&
  N.eqb c_LEAF_NODE_BODY_SIZE (c_PAGE_SIZE - 2) &&
  N.eqb c_MAX_LEAF_VALUE_SIZE (c_LEAF_NODE_BODY_SIZE / 3 - 32) &&
  N.eqb c_MAX_OVERFLOW_CELL_NODE_POINTERS 15 &&
  N.eqb c_BODY_SIZE (c_PAGE_SIZE - c_HEADER_SIZE) && N.eqb c_MAX_PNS (c_BODY_SIZE / 4) &&
  N.eqb c_MAX_PNS_PER_PAGE ((c_PAGE_SIZE - 6) / 4) &&
  N.eqb c_EMPTY 0 && N.eqb c_TOMBSTONE 127 && N.eqb c_FULL_MASK 128 &&
  N.eqb c_RECORD_ALIGNMENT c_PAGE_SIZE && N.eqb c_SEGLOG_HEADER_SIZE 12.

Lemma constants_ok_true : constants_ok = true.
Proof. vm_compute. reflexivity. Qed.

(* --- C14 (fault model, Fault.v): the result of every fallible call is examined ------------- *)
(* [sync_fallible_calls]: the fallible calls of Sync::sync in textual order with the flag "the
   closing parenthesis is followed by `?`"; [sync_try_count]: the number of `?` in that body (a new
   fallible call that the model does not know about changes it); [io_result_calls]: every
   write / resize / fsync call inside write_wal, truncate_wal, write_ht, Meta::write, seglog append
   and the segment writer it uses, with the flag "its result is propagated".  A call whose result
   is dropped ([let _ =], [.ok()], bare [;]) or a marker that is not found makes the lemma FAIL. *)
Fixpoint calls_eqb (a b : list (string * bool)) : bool :=
  match a, b with
  | [], [] => true
  | (n, c) :: a', (m, d) :: b' => String.eqb n m && Bool.eqb c d && calls_eqb a' b'
  | _, _ => false
  end.

Lemma calls_eqb_eq : forall a b, calls_eqb a b = true -> a = b.
Proof.
  intros a. induction a as [|[n c] a IH]; intros [|[m d] b] H; simpl in H; try discriminate.
  - reflexivity.
  - apply andb_true_iff in H. destruct H as [H H3]. apply andb_true_iff in H. destruct H as [H1 H2].
    apply String.eqb_eq in H1. apply Bool.eqb_prop in H2. subst. f_equal. apply IH. exact H3.
Qed.

(* the call [c] occurs in the body of [f] *)
Definition io_present (f c : string) : bool :=
  existsb (fun x => let '(g, d, _) := x in String.eqb g f && String.eqb d c) io_result_calls.

Definition expected_sync_fallible_calls : list (string * bool) :=
  [("bitbox_wait_pre_meta", true); ("beatree_wait_pre_meta", true); ("meta_write", true);
   ("bitbox_post_meta", true); ("rollback_wait_post_meta", true)].

Definition sync_results_checked : bool :=
  (* exactly these five calls, in this order, each followed by `?`; no other `?` in the body *)
  calls_eqb sync_fallible_calls expected_sync_fallible_calls &&
  Nat.eqb sync_try_count 5 &&
  (* no write / resize / fsync result is dropped inside the steps *)
  forallb (fun x => let '(_, _, k) := x in k) io_result_calls &&
  io_present "write_wal" "set_len" && io_present "write_wal" "write_all" && io_present "write_wal" "sync_all" &&
  io_present "truncate_wal" "set_len" && io_present "truncate_wal" "sync_all" &&
  io_present "write_ht" "recv_result" && io_present "write_ht" "sync_all" &&
  io_present "meta_write" "write_all_at" && io_present "meta_write" "sync_all" &&
  io_present "seglog_append" "write_header" && io_present "seglog_append" "write_payload" &&
  io_present "seglog_append" "fsync" && io_present "seglog_append" "create_segment" &&
  io_present "segment_write_header" "write_all" && io_present "segment_write_payload" "write_all" &&
  io_present "segment_write_payload" "set_len" && io_present "segment_fsync" "sync_data".

Lemma sync_results_checked_true : sync_results_checked = true.
Proof. vm_compute; reflexivity. Qed.

Lemma sync_fallible_calls_expected : sync_fallible_calls = expected_sync_fallible_calls.
Proof. apply calls_eqb_eq. vm_compute; reflexivity. Qed.
