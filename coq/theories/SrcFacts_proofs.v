(* Lemmas over the facts regenerated from the Rust source on every run (Gen/SrcFacts.v):
   the step orders that the protocol-level theorems and the repaired defects depend on.
   Each is a decidable fact about finite lists, re-proved by computation whenever the source
   changes; a change of order makes the corresponding lemma fail. *)
From Coq Require Import List NArith String Bool Arith.
From Nomt.Gen Require Import SrcFacts.
Import ListNotations.
Open Scope string_scope.

Fixpoint rank (name : string) (l : list (string * nat)) : nat :=
  match l with
  | [] => 0
  | (n, r) :: l' => if String.eqb n name then r else rank name l'
  end.

(* both present and in this order *)
Definition before (a b : string) (l : list (string * nat)) : bool :=
  Nat.ltb 0 (rank a l) && Nat.ltb (rank a l) (rank b l).

Definition absent (a : string) (l : list (string * nat)) : bool := Nat.eqb (rank a l) 0.

(* --- C12 / C14: the commit entry points of lib.rs ------------------------------------- *)
(* the write lock is taken before the previous-root check; nothing that changes state (rollback
   log, overlay status, root, store) happens before the check; a poisoned store is refused before
   the rollback log is touched *)
Definition entry_ok (overlay : bool) (l : list (string * nat)) : bool :=
  before "lock" "root_check" l &&
  before "lock" "poison_check" l &&
  before "poison_check" "rollback_append" l &&
  before "root_check" "rollback_append" l &&
  before "root_check" "root_update" l &&
  before "root_check" "store_commit" l &&
  before "rollback_append" "store_commit" l &&
  before "root_update" "store_commit" l &&
  (if overlay
   then before "parent_check" "lock" l && before "root_check" "mark_committed" l
   else absent "mark_committed" l).

Definition commit_orders_ok : bool :=
  entry_ok false steps_session_commit && entry_ok false steps_session_commit_nb &&
  entry_ok true steps_overlay_commit && entry_ok true steps_overlay_commit_nb &&
  before "lock" "poison_check" steps_rollback && before "poison_check" "truncate" steps_rollback &&
  before "truncate" "commit" steps_rollback.

Lemma commit_orders_ok_true : commit_orders_ok = true.
Proof. vm_compute. reflexivity. Qed.

(* --- C14: failures are examined and poison the store ------------------------------------ *)
Definition fault_handling_ok : bool :=
  before "poison_check" "sync" store_commit_steps && before "sync" "poison_set" store_commit_steps &&
  before "send" "recv_checked" write_ht_steps && before "recv_checked" "sync_all" write_ht_steps.

Lemma fault_handling_ok_true : fault_handling_ok = true.
Proof. vm_compute. reflexivity. Qed.

(* --- C03 / C04 / C17: the phases of a sync and the order inside its steps ----------------- *)
Definition sync_order_ok : bool :=
  before "bitbox_begin" "bitbox_wait_pre_meta" sync_phases &&
  before "beatree_begin" "beatree_wait_pre_meta" sync_phases &&
  before "rollback_begin" "meta_write" sync_phases &&
  before "bitbox_wait_pre_meta" "meta_write" sync_phases &&
  before "beatree_wait_pre_meta" "meta_write" sync_phases &&
  before "meta_write" "rollback_post_meta" sync_phases &&
  before "meta_write" "bitbox_post_meta" sync_phases &&
  before "meta_write" "beatree_post_meta" sync_phases &&
  before "rollback_post_meta" "rollback_wait_post_meta" sync_phases &&
  (* the redo log is complete and durable before it matters *)
  before "set_len" "write_all" write_wal_steps && before "write_all" "sync_all" write_wal_steps &&
  (* the switch-over record is written, then made durable *)
  before "write_all_at" "sync_all" meta_write_steps.

(* hash-table pages are durable before the redo log is discarded, in a sync and in recovery; a
   rollback record is complete and durable before the log's live range moves *)
Definition sync_order_ok2 : bool :=
  before "write_ht" "truncate_wal" bitbox_post_meta_steps &&
  before "redo_write" "ht_sync" bitbox_recover_steps &&
  before "ht_sync" "final_truncate" bitbox_recover_steps &&
  before "write_header" "write_payload" seglog_append_steps &&
  before "write_payload" "fsync" seglog_append_steps &&
  before "fsync" "end_live_update" seglog_append_steps.

Lemma sync_order_ok_true : sync_order_ok = true /\ sync_order_ok2 = true.
Proof. vm_compute. split; reflexivity. Qed.

(* --- C20: lock before touching the directory, drain before unlocking ---------------------- *)
Definition lock_order_ok : bool :=
  before "mkdir" "flock" store_create_steps && before "flock" "create_meta" store_create_steps &&
  before "io_shutdown" "flock_drop" shared_drop_steps.

Lemma lock_order_ok_true : lock_order_ok = true.
Proof. vm_compute. reflexivity. Qed.

(* --- constants the models use ------------------------------------------------------------- *)
Definition constants_ok : bool :=
  N.eqb c_PAGE_SIZE 4096 && N.eqb c_DEPTH 6 &&
  N.eqb c_NODES_PER_PAGE (2 ^ (c_DEPTH + 1) - 2) &&
  N.eqb c_NUM_CHILDREN (2 ^ c_DEPTH) && N.eqb c_MAX_COMMIT_CONCURRENCY c_NUM_CHILDREN &&
  N.eqb (c_MAX_PAGE_DEPTH * c_DEPTH) 252 &&
  N.eqb c_PAGE_ELISION_THRESHOLD 20 &&
  N.eqb c_LEAF_NODE_BODY_SIZE (c_PAGE_SIZE - 2) &&
  N.eqb c_MAX_LEAF_VALUE_SIZE (c_LEAF_NODE_BODY_SIZE / 3 - 32) &&
  N.eqb c_MAX_OVERFLOW_CELL_NODE_POINTERS 15 &&
  N.eqb c_BODY_SIZE (c_PAGE_SIZE - c_HEADER_SIZE) && N.eqb c_MAX_PNS (c_BODY_SIZE / 4) &&
  N.eqb c_MAX_PNS_PER_PAGE ((c_PAGE_SIZE - 6) / 4) &&
  N.eqb c_EMPTY 0 && N.eqb c_TOMBSTONE 127 && N.eqb c_FULL_MASK 128 &&
  N.eqb c_RECORD_ALIGNMENT c_PAGE_SIZE && N.eqb c_SEGLOG_HEADER_SIZE 12.

Lemma constants_ok_true : constants_ok = true.
Proof. vm_compute. reflexivity. Qed.

(* --- C14 (fault model, Fault.v): the result of every fallible call is examined ------------- *)
(* [sync_fallible_calls]: the fallible calls of Sync::sync in textual order with the flag "the
   closing parenthesis is followed by `?`"; [sync_try_count]: the number of `?` in that body (a new
   fallible call that the model does not know about changes it); [io_result_calls]: every
   write / resize / fsync call inside write_wal, truncate_wal, write_ht, Meta::write, seglog append
   and the segment writer it uses, with the flag "its result is propagated".  A call whose result
   is dropped ([let _ =], [.ok()], bare [;]) or a marker that is not found makes the lemma FAIL. *)
Fixpoint calls_eqb (a b : list (string * bool)) : bool :=
  match a, b with
  | [], [] => true
  | (n, c) :: a', (m, d) :: b' => String.eqb n m && Bool.eqb c d && calls_eqb a' b'
  | _, _ => false
  end.

Lemma calls_eqb_eq : forall a b, calls_eqb a b = true -> a = b.
Proof.
  intros a. induction a as [|[n c] a IH]; intros [|[m d] b] H; simpl in H; try discriminate.
  - reflexivity.
  - apply andb_true_iff in H. destruct H as [H H3]. apply andb_true_iff in H. destruct H as [H1 H2].
    apply String.eqb_eq in H1. apply Bool.eqb_prop in H2. subst. f_equal. apply IH. exact H3.
Qed.

(* the call [c] occurs in the body of [f] *)
Definition io_present (f c : string) : bool :=
  existsb (fun x => let '(g, d, _) := x in String.eqb g f && String.eqb d c) io_result_calls.

Definition expected_sync_fallible_calls : list (string * bool) :=
  [("bitbox_wait_pre_meta", true); ("beatree_wait_pre_meta", true); ("meta_write", true);
   ("bitbox_post_meta", true); ("rollback_wait_post_meta", true)].

Definition sync_results_checked : bool :=
  (* exactly these five calls, in this order, each followed by `?`; no other `?` in the body *)
  calls_eqb sync_fallible_calls expected_sync_fallible_calls &&
  Nat.eqb sync_try_count 5 &&
  (* no write / resize / fsync result is dropped inside the steps *)
  forallb (fun x => let '(_, _, k) := x in k) io_result_calls &&
  io_present "write_wal" "set_len" && io_present "write_wal" "write_all" && io_present "write_wal" "sync_all" &&
  io_present "truncate_wal" "set_len" && io_present "truncate_wal" "sync_all" &&
  io_present "write_ht" "recv_result" && io_present "write_ht" "sync_all" &&
  io_present "meta_write" "write_all_at" && io_present "meta_write" "sync_all" &&
  io_present "seglog_append" "write_header" && io_present "seglog_append" "write_payload" &&
  io_present "seglog_append" "fsync" && io_present "seglog_append" "create_segment" &&
  io_present "segment_write_header" "write_all" && io_present "segment_write_payload" "write_all" &&
  io_present "segment_write_payload" "set_len" && io_present "segment_fsync" "sync_data".

Lemma sync_results_checked_true : sync_results_checked = true.
Proof. vm_compute; reflexivity. Qed.

Lemma sync_fallible_calls_expected : sync_fallible_calls = expected_sync_fallible_calls.
Proof. apply calls_eqb_eq. vm_compute; reflexivity. Qed.
