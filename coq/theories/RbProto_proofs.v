(* C17 / C04 for the rollback log: power-loss atomicity of the segment-log write discipline (RbProto.v).

   Main results: [rb_powerloss_atomic], [rb_old_range_intact], [rb_explain_ok]
   (rb_explain = None <-> rb_discipline = true), [rb_checked_powerloss_atomic] (what one "ok" line of
   the driver means).
   Examples: [Ex.tr_roll_accepted] (roll-over and pruning, accepted, every power-loss image of every
   cut enumerated), [Ex.tr_rollback_accepted]; one [*_necessary] theorem per clause of the monitor.

   Deviation from the statement handed out: [rb_discipline] (and [rb_explain]) take the starting
   disk [d0] as an argument, like SyncProto.discipline does: "appended, its segment fsynced and the
   creation durable" is evaluated on the model disk reached at the manifest write ([durable_rec]),
   not by pattern matching on the trace. *)
From Coq Require Import List Bool Arith NArith Lia.
Import ListNotations.
From Nomt Require Import RbProto.

(* ====================================================================================== *)
(* Part 0: executable enumeration of all power-loss images (testing the statement), and     *)
(* explicit images given by keep vectors (witnesses)                                        *)
(* ====================================================================================== *)

Fixpoint all_keeps (n : nat) : list (list bool) :=
  match n with
  | O => [[]]
  | S k => flat_map (fun l => [true :: l; false :: l]) (all_keeps k)
  end.

Definition name_images (st : nstate) : list (option (N -> blk)) :=
  flat_map (fun kd =>
    match fold_left apply_dop (sel kd (n_dpend st)) (n_dur st) with
    | None => [None]
    | Some g => map (fun kc => Some (file_image (gfile st g) kc)) (all_keeps (length (fpend (gfile st g))))
    end) (all_keeps (length (n_dpend st))).

Fixpoint images_of (l : list (N * nstate)) : list (list (N * option (N -> blk))) :=
  match l with
  | [] => [[]]
  | (s, st) :: l' => flat_map (fun o => map (fun rest => (s, o) :: rest) (images_of l')) (name_images st)
  end.

Definition mk_image (nw : bool) (a : list (N * option (N -> blk))) : image :=
  {| i_new := nw;
     i_file := fun s => match find (fun x => N.eqb (fst x) s) a with Some (_, o) => o | None => None end |}.

Definition metas (m : mstate) : list bool :=
  match m with MOld => [false] | MPend => [false; true] | MNew => [true] end.

Definition all_images (d : disk) : list image :=
  flat_map (fun nw => map (mk_image nw) (images_of (d_names d))) (metas (d_meta d)).

Definition check_cut (I : inst) (d0 : disk) (tr : list ev) (n : nat) : bool :=
  forallb (fun img =>
    (if i_new img then rb_recover (rb_new_recs I tr) (n_start I) (n_end I) img
     else rb_recover (o_recs I) (o_start I) (o_end I) img) &&
    (match index_of is_meta_write tr with
     | Some iw => if Nat.leb n iw then negb (i_new img) else true | None => true end) &&
    (match index_of is_meta_sync tr with
     | Some is_ => if Nat.ltb is_ n then i_new img else true | None => true end))
    (all_images (rb_run d0 (firstn n tr))).

Definition check_all (I : inst) (d0 : disk) (tr : list ev) : bool :=
  forallb (check_cut I d0 tr) (seq 0 (S (length tr))).

(* explicit images: per name a keep vector for its directory operations and one for the data
   operations of the generation that survives; [] for the names not mentioned *)
Definition kget (ks : list (N * list bool)) (s : N) : list bool :=
  match find (fun x => N.eqb (fst x) s) ks with Some (_, k) => k | None => [] end.

Definition img_of (d : disk) (nw : bool) (kds kcs : list (N * list bool)) : image :=
  {| i_new := nw;
     i_file := fun s =>
       let st := nget d s in
       match fold_left apply_dop (sel (kget kds s) (n_dpend st)) (n_dur st) with
       | None => None
       | Some g => Some (file_image (gfile st g) (kget kcs s))
       end |}.

Definition keeps_ok (d : disk) (nw : bool) (kds kcs : list (N * list bool)) : bool :=
  (match d_meta d with MOld => negb nw | MPend => true | MNew => nw end) &&
  forallb (fun s =>
    let st := nget d s in
    Nat.eqb (length (kget kds s)) (length (n_dpend st)) &&
    match fold_left apply_dop (sel (kget kds s) (n_dpend st)) (n_dur st) with
    | None => true
    | Some g => Nat.eqb (length (kget kcs s)) (length (fpend (gfile st g)))
    end) (map fst (d_names d) ++ map fst kds ++ map fst kcs).

Lemma find_fst_none : forall A (l : list (N * A)) s,
  ~ In s (map fst l) -> find (fun x => N.eqb (fst x) s) l = None.
Proof.
  intros A l s. induction l as [|[t a] l IH]; intros H; simpl in *; [reflexivity|].
  destruct (N.eqb t s) eqn:E.
  - apply N.eqb_eq in E. exfalso. apply H. left. exact E.
  - apply IH. intros Hin. apply H. right. exact Hin.
Qed.

Lemma pl_image_of_keeps : forall d nw kds kcs,
  keeps_ok d nw kds kcs = true -> rb_pl_image d (img_of d nw kds kcs).
Proof.
  intros d nw kds kcs H. unfold keeps_ok in H. apply andb_true_iff in H. destruct H as [Hm Hn].
  split.
  - simpl. destruct (d_meta d); [apply negb_true_iff in Hm; exact Hm|exact I|exact Hm].
  - intros s. unfold name_image. exists (kget kds s). simpl.
    destruct (in_dec N.eq_dec s (map fst (d_names d) ++ map fst kds ++ map fst kcs)) as [Hin|Hnin].
    + rewrite forallb_forall in Hn. specialize (Hn s Hin). cbv zeta in Hn.
      apply andb_true_iff in Hn. destruct Hn as [H1 H2]. apply Nat.eqb_eq in H1. split; [exact H1|].
      destruct (fold_left apply_dop (sel (kget kds s) (n_dpend (nget d s))) (n_dur (nget d s))) as [g|]; [|reflexivity].
      apply Nat.eqb_eq in H2. exists (kget kcs s), (file_image (gfile (nget d s) g) (kget kcs s)).
      split; [exact H2|]. split; [reflexivity|intros b; reflexivity].
    + assert (H1 : ~ In s (map fst (d_names d))) by (intros Hx; apply Hnin; apply in_or_app; left; exact Hx).
      assert (H2 : ~ In s (map fst kds)).
      { intros Hx. apply Hnin. apply in_or_app. right. apply in_or_app. left. exact Hx. }
      unfold kget, nget. rewrite (find_fst_none _ (d_names d) s H1), (find_fst_none _ kds s H2).
      simpl. split; reflexivity.
Qed.

(* ====================================================================================== *)
(* Part 1: the disk model, name by name                                                     *)
(* ====================================================================================== *)

Definition affects (e : ev) (s : N) : bool :=
  match ev_seg e with
  | Some t => N.eqb t s
  | None => match e with EDirSync => true | _ => false end
  end.

Lemma nget_nset_same : forall l s st m, nget {| d_names := nset l s st; d_meta := m |} s = st.
Proof.
  intros l s st m. unfold nget. simpl. induction l as [|[t x] l IH]; simpl.
  - rewrite N.eqb_refl. reflexivity.
  - destruct (N.eqb t s) eqn:E; simpl.
    + rewrite N.eqb_refl. reflexivity.
    + rewrite E. exact IH.
Qed.

Lemma nget_nset_other : forall l s t st m m', s <> t ->
  nget {| d_names := nset l s st; d_meta := m |} t = nget {| d_names := l; d_meta := m' |} t.
Proof.
  intros l s t st m m' Hne. unfold nget. simpl. induction l as [|[u x] l IH]; simpl.
  - destruct (N.eqb s t) eqn:E; [apply N.eqb_eq in E; contradiction|reflexivity].
  - destruct (N.eqb u s) eqn:E; simpl.
    + apply N.eqb_eq in E. subst u.
      destruct (N.eqb s t) eqn:E2; [apply N.eqb_eq in E2; contradiction|reflexivity].
    + destruct (N.eqb u t) eqn:E2; [reflexivity|exact IH].
Qed.

Lemma nget_meta_irrelevant : forall l m m' s,
  nget {| d_names := l; d_meta := m |} s = nget {| d_names := l; d_meta := m' |} s.
Proof. intros. reflexivity. Qed.

Lemma nstep_dirsync_empty : nstep nempty EDirSync = nempty.
Proof. reflexivity. Qed.

Lemma nget_map_dirsync : forall l m s,
  nget {| d_names := map (fun x => (fst x, nstep (snd x) EDirSync)) l; d_meta := m |} s
  = nstep (nget {| d_names := l; d_meta := m |} s) EDirSync.
Proof.
  intros l m s. unfold nget. simpl. induction l as [|[t x] l IH]; simpl.
  - reflexivity.
  - destruct (N.eqb t s); [reflexivity|exact IH].
Qed.

Lemma nget_dstep : forall d e s,
  nget (dstep d e) s = if affects e s then nstep (nget d s) e else nget d s.
Proof.
  intros d e s. destruct d as [l m].
  destruct e as [t|t off rid len|t len|t| |t|a b| ]; unfold affects; simpl ev_seg; cbv iota;
    try (unfold dstep; cbv beta iota;
         destruct (N.eqb t s) eqn:E;
         [apply N.eqb_eq in E; subst t; apply nget_nset_same
         |apply nget_nset_other; apply N.eqb_neq; exact E]).
  - unfold dstep. apply nget_map_dirsync.
  - reflexivity.
  - reflexivity.
Qed.

Lemma d_meta_dstep : forall d e,
  d_meta (dstep d e) =
  match e with
  | EMetaWrite _ _ => match d_meta d with MOld => MPend | m => m end
  | EMetaSync => match d_meta d with MPend => MNew | m => m end
  | _ => d_meta d
  end.
Proof. intros d e. destruct e; reflexivity. Qed.

Lemma rb_run_app : forall d l1 l2, rb_run d (l1 ++ l2) = rb_run (rb_run d l1) l2.
Proof. intros. unfold rb_run. apply fold_left_app. Qed.

Lemma rb_run_one : forall d e, rb_run d [e] = dstep d e.
Proof. reflexivity. Qed.

Lemma rb_run_two : forall d e1 e2, rb_run d [e1; e2] = dstep (dstep d e1) e2.
Proof. reflexivity. Qed.

(* a property of one name's state is preserved by a run if every event affecting it preserves it *)
Lemma run_name_inv : forall (P : nstate -> Prop) s tr d,
  P (nget d s) ->
  (forall st e, P st -> In e tr -> affects e s = true -> P (nstep st e)) ->
  P (nget (rb_run d tr) s).
Proof.
  intros P s tr. induction tr as [|e tr IH]; intros d HP Hstep; simpl.
  - exact HP.
  - apply IH.
    + rewrite nget_dstep. destruct (affects e s) eqn:E.
      * apply Hstep; auto. left. reflexivity.
      * exact HP.
    + intros st e' Hst Hin. apply Hstep; auto. right. exact Hin.
Qed.

Lemma meta_run_quiet : forall tr d, Forall (fun e => is_meta e = false) tr -> d_meta (rb_run d tr) = d_meta d.
Proof.
  induction tr as [|e tr IH]; intros d H; simpl; [reflexivity|].
  inversion H as [|? ? He Ht]; subst. rewrite IH by exact Ht. rewrite d_meta_dstep.
  destruct e; try reflexivity; discriminate.
Qed.

(* ---- generations ---- *)
Lemma gfile_gset_same : forall st l g f,
  n_files st = gset l g f -> gfile st g = f.
Proof.
  intros st l g f H. unfold gfile. rewrite H. clear H. induction l as [|[h x] l IH]; simpl.
  - rewrite N.eqb_refl. reflexivity.
  - destruct (N.eqb h g) eqn:E; simpl.
    + rewrite N.eqb_refl. reflexivity.
    + rewrite E. exact IH.
Qed.

Lemma sel_nil : forall A k, @sel A k [] = [].
Proof. intros A k. destruct k as [|[] k]; reflexivity. Qed.

Lemma n_cur_clean : forall st, n_dpend st = [] -> n_cur st = n_dur st.
Proof. intros st H. unfold n_cur. rewrite H. reflexivity. Qed.

(* ---- per-block value invariants (as in SyncProto_proofs) ---- *)
Definition cop_ok (ok : N -> blk -> Prop) (o : cop) : Prop :=
  match o with
  | CWrite b t => ok b t
  | CTrunc len => forall b, (len <= b)%N -> ok b blk0
  end.

Definition finv (ok : N -> blk -> Prop) (f : fstate) : Prop :=
  (forall b, ok b (pm_get (fdur f) b)) /\ Forall (cop_ok ok) (fpend f).

Lemma pm_get_trunc : forall m len b,
  pm_get (filter (fun x => N.ltb (fst x) len) m) b = if N.ltb b len then pm_get m b else blk0.
Proof.
  intros m len b. induction m as [|[p t] m IH].
  - simpl. destruct (N.ltb b len); reflexivity.
  - simpl. destruct (N.ltb p len) eqn:E; simpl.
    + destruct (N.eqb p b) eqn:E2.
      * apply N.eqb_eq in E2. subst p. rewrite E. reflexivity.
      * exact IH.
    + destruct (N.eqb p b) eqn:E2.
      * apply N.eqb_eq in E2. subst p. rewrite E in *. exact IH.
      * exact IH.
Qed.

Lemma apply_ok : forall (ok : N -> blk -> Prop) m o,
  (forall b, ok b (pm_get m b)) -> cop_ok ok o -> forall b, ok b (pm_get (apply_cop m o) b).
Proof.
  intros ok m o Hm Ho b. destruct o as [p t|len]; simpl in *.
  - destruct (N.eqb p b) eqn:E.
    + apply N.eqb_eq in E. subst. exact Ho.
    + apply Hm.
  - rewrite pm_get_trunc. destruct (N.ltb b len) eqn:E.
    + apply Hm.
    + apply Ho. apply N.ltb_ge. exact E.
Qed.

Lemma fold_ok : forall (ok : N -> blk -> Prop) ops m,
  (forall b, ok b (pm_get m b)) -> Forall (cop_ok ok) ops ->
  forall b, ok b (pm_get (fold_left apply_cop ops m) b).
Proof.
  intros ok ops. induction ops as [|o ops IH]; intros m Hm Hops b; simpl.
  - apply Hm.
  - inversion Hops; subst. apply IH; auto. apply apply_ok; auto.
Qed.

Lemma Forall_sel : forall A (P : A -> Prop) k l, Forall P l -> Forall P (sel k l).
Proof.
  intros A P k. induction k as [|b k IH]; intros l Hl; simpl.
  - constructor.
  - destruct b; destruct l as [|x l]; try constructor; inversion Hl; subst; auto.
Qed.

Lemma finv_image : forall (ok : N -> blk -> Prop) f, finv ok f -> forall keep b, ok b (file_image f keep b).
Proof.
  intros ok f [Hd Hp] keep b. unfold file_image. apply fold_ok; auto. apply Forall_sel. exact Hp.
Qed.

Lemma seqN_in : forall n start x,
  In x (seqN start n) <-> (start <= x /\ x < start + N.of_nat n)%N.
Proof.
  induction n as [|n IH]; intros start x.
  - simpl. split; [intros []|]. lia.
  - cbn [seqN In]. rewrite IH. lia.
Qed.

Lemma blk_eqb_eq : forall a b, blk_eqb a b = true <-> a = b.
Proof.
  intros [a1 a2] [b1 b2]. unfold blk_eqb. simpl. rewrite andb_true_iff, !N.eqb_eq. split.
  - intros [-> ->]. reflexivity.
  - intros H. inversion H. split; reflexivity.
Qed.

(* ====================================================================================== *)
(* Part 2: records that are kept                                                            *)
(* ====================================================================================== *)

(* block b of the file holds what record r wants there *)
Definition ok_rec (r : rrec) (b : N) (t : blk) : Prop :=
  (r_off r <= b /\ b < r_end r)%N -> t = (r_id r, (b - r_off r)%N).

(* the name of r's segment durably denotes a file whose durable blocks hold r and whose pending
   operations leave r alone; no directory operation on the name is pending *)
Definition kept_name (r : rrec) (st : nstate) : Prop :=
  exists g, n_dur st = Some g /\ n_dpend st = [] /\ finv (ok_rec r) (gfile st g).

Definition kept (R : list rrec) (d : disk) : Prop :=
  forall r, In r R -> kept_name r (nget d (r_seg r)).

Lemma on_cur_kept : forall r st g F,
  n_dur st = Some g -> n_dpend st = [] -> finv (ok_rec r) (F (gfile st g)) ->
  kept_name r (on_cur st F).
Proof.
  intros r st g F Hd Hp HF.
  assert (E : n_cur st = Some g) by (rewrite n_cur_clean; assumption).
  unfold on_cur. rewrite E.
  exists g. simpl. split; [exact Hd|]. split; [exact Hp|].
  erewrite gfile_gset_same; [exact HF|reflexivity].
Qed.

Lemma safe_ev_in : forall R e r, safe_ev R e = true -> In r R -> safe_ev [r] e = true.
Proof.
  intros R e r H Hin. destruct e; simpl in *; try reflexivity;
    rewrite forallb_forall in H; rewrite (H r Hin); reflexivity.
Qed.

Lemma kept_nstep : forall r st e,
  kept_name r st -> affects e (r_seg r) = true -> safe_ev [r] e = true -> kept_name r (nstep st e).
Proof.
  intros r st e (g & Hd & Hp & Hf) Ha Hs.
  assert (Hsame : forall t, N.eqb t (r_seg r) = true -> same_seg r t = true).
  { intros t Ht. apply N.eqb_eq in Ht. subst t. unfold same_seg. apply N.eqb_refl. }
  destruct e as [t|t off rid len|t len|t| |t|a b| ]; unfold affects in Ha; simpl in Ha; try discriminate.
  - (* create: excluded *)
    simpl in Hs. rewrite (Hsame t Ha) in Hs. discriminate.
  - (* append *)
    simpl in Hs. rewrite (Hsame t Ha) in Hs. simpl in Hs. rewrite andb_true_r in Hs.
    simpl. apply (on_cur_kept r st g); auto. destruct Hf as [Hf1 Hf2]. split; simpl; [exact Hf1|].
    apply Forall_app. split; [exact Hf2|]. apply Forall_forall. intros o Ho.
    apply in_map_iff in Ho. destruct Ho as [k [<- Hk]]. apply seqN_in in Hk.
    rewrite N2Nat.id in Hk. simpl. intros Hr.
    unfold disjoint in Hs. apply orb_true_iff in Hs. unfold r_end in *.
    destruct Hs as [Hs|Hs]; apply N.leb_le in Hs; lia.
  - (* truncation *)
    simpl in Hs. rewrite (Hsame t Ha) in Hs. simpl in Hs. rewrite andb_true_r in Hs. apply N.leb_le in Hs.
    simpl. apply (on_cur_kept r st g); auto. destruct Hf as [Hf1 Hf2]. split; simpl; [exact Hf1|].
    apply Forall_app. split; [exact Hf2|]. constructor; [|constructor].
    simpl. intros b Hb Hr. lia.
  - (* fsync of the file *)
    simpl. apply (on_cur_kept r st g); auto. destruct Hf as [Hf1 Hf2]. split; simpl; [|constructor].
    apply fold_ok; assumption.
  - (* fsync of the directory *)
    exists g. simpl. rewrite (n_cur_clean st Hp). split; [exact Hd|]. split; [reflexivity|exact Hf].
  - (* unlink: excluded *)
    simpl in Hs. rewrite (Hsame t Ha) in Hs. discriminate.
Qed.

Lemma kept_run : forall R evs d,
  kept R d -> Forall (fun e => safe_ev R e = true) evs -> kept R (rb_run d evs).
Proof.
  intros R evs d Hk Hs r Hr. rewrite Forall_forall in Hs.
  apply (run_name_inv (kept_name r)); [apply Hk; exact Hr|].
  intros st e Hst Hin Ha. apply kept_nstep; auto. apply (safe_ev_in R); auto.
Qed.

Lemma kept_meta_step : forall R d e, is_meta e = true -> kept R d -> kept R (dstep d e).
Proof.
  intros R d e He Hk r Hr. rewrite nget_dstep.
  assert (Ha : affects e (r_seg r) = false) by (destruct e; try discriminate; reflexivity).
  rewrite Ha. apply Hk. exact Hr.
Qed.

Lemma kept_name_image : forall r st o, kept_name r st -> name_image st o ->
  exists f, o = Some f /\ forall b, ok_rec r b (f b).
Proof.
  intros r st o (g & Hd & Hp & Hf) (kd & _ & Hi). rewrite Hp, sel_nil in Hi. simpl in Hi. rewrite Hd in Hi.
  destruct Hi as (kc & f & _ & -> & Hfb). exists f. split; [reflexivity|].
  intros b. rewrite Hfb. apply finv_image. exact Hf.
Qed.

Lemma kept_present : forall R d img, kept R d -> rb_pl_image d img ->
  forall r, In r R -> rec_present img r = true.
Proof.
  intros R d img Hk [_ Hi] r Hr.
  destruct (kept_name_image r _ _ (Hk r Hr) (Hi (r_seg r))) as (f & Hf & Hb).
  unfold rec_present. rewrite Hf. apply forallb_forall. intros k Hk'. apply seqN_in in Hk'.
  rewrite N2Nat.id in Hk'. apply blk_eqb_eq.
  rewrite (Hb (r_off r + k)%N) by (unfold r_end; lia). f_equal. lia.
Qed.

Lemma durable_kept : forall R d, forallb (durable_rec d) R = true -> kept R d.
Proof.
  intros R d H r Hr. rewrite forallb_forall in H. specialize (H r Hr).
  unfold durable_rec, dir_durable, file_clean, content_durable in H.
  destruct (n_dur (nget d (r_seg r))) as [g|] eqn:Hd; [|discriminate].
  apply andb_true_iff in H. destruct H as [H H3]. apply andb_true_iff in H. destruct H as [H1 H2].
  exists g. split; [exact Hd|].
  split; [destruct (n_dpend (nget d (r_seg r))); [reflexivity|discriminate]|].
  split.
  - intros b Hb. rewrite forallb_forall in H3.
    specialize (H3 (b - r_off r)%N).
    replace (r_off r + (b - r_off r))%N with b in H3 by lia.
    apply blk_eqb_eq. apply H3. apply seqN_in. rewrite N2Nat.id. unfold r_end in Hb. lia.
  - destruct (fpend (gfile (nget d (r_seg r)) g)); [constructor|discriminate].
Qed.

Lemma lookup_all_in : forall recs ids l, lookup_all recs ids = Some l -> forall r, In r l -> In r recs.
Proof.
  intros recs ids. induction ids as [|id ids IH]; intros l H r Hr; simpl in H.
  - inversion H; subst. destruct Hr.
  - destruct (find_rec recs id) as [x|] eqn:E; [|discriminate].
    destruct (lookup_all recs ids) as [l'|]; [|discriminate]. inversion H; subst.
    destruct Hr as [<-|Hr].
    + unfold find_rec in E. apply find_some in E. apply E.
    + apply (IH l' eq_refl). exact Hr.
Qed.

(* ====================================================================================== *)
(* Part 3: the shape of a disciplined trace                                                 *)
(* ====================================================================================== *)

Lemma firstn_len_app : forall A (a b : list A), firstn (length a) (a ++ b) = a.
Proof. intros A a b. induction a as [|x a IH]; simpl; [destruct b; reflexivity|rewrite IH; reflexivity]. Qed.

Lemma skipn_len_app : forall A (a b : list A), skipn (length a) (a ++ b) = b.
Proof. intros A a b. induction a as [|x a IH]; simpl; auto. Qed.

Lemma firstn_len_plus_app : forall A (a b : list A) n, firstn (length a + n) (a ++ b) = a ++ firstn n b.
Proof. intros A a b n. induction a as [|x a IH]; simpl; [reflexivity|rewrite IH; reflexivity]. Qed.

Lemma firstn_le_app : forall A (a b : list A) n, n <= length a -> firstn n (a ++ b) = firstn n a.
Proof.
  intros A a b n. revert a. induction n as [|n IH]; intros a Hn; simpl; [reflexivity|].
  destruct a as [|x a]; simpl in *; [lia|]. rewrite IH by lia. reflexivity.
Qed.

Lemma nth_error_len_app : forall A (a b : list A) x, nth_error (a ++ x :: b) (length a) = Some x.
Proof. intros A a b x. induction a as [|y a IH]; simpl; auto. Qed.

Lemma Forall_firstn : forall A (P : A -> Prop) n l, Forall P l -> Forall P (firstn n l).
Proof.
  intros A P n. induction n as [|n IH]; intros l H; simpl; [constructor|].
  destruct l as [|x l]; [constructor|]. inversion H; subst. constructor; auto.
Qed.

Lemma index_of_some : forall p tr i, index_of p tr = Some i ->
  exists l1 e l2, tr = l1 ++ e :: l2 /\ length l1 = i /\ p e = true /\ Forall (fun x => p x = false) l1.
Proof.
  intros p tr. induction tr as [|x tr IH]; intros i H; simpl in H; [discriminate|].
  destruct (p x) eqn:E.
  - inversion H; subst. exists [], x, tr. repeat split; auto.
  - destruct (index_of p tr) as [j|] eqn:Ej; simpl in H; [|discriminate]. inversion H; subst.
    destruct (IH j eq_refl) as [l1 [e [l2 [H1 [H2 [H3 H4]]]]]].
    exists (x :: l1), e, l2. subst tr. repeat split; simpl; auto.
Qed.

Lemma index_of_app_skip : forall p l1 l2, Forall (fun x => p x = false) l1 ->
  index_of p (l1 ++ l2) = option_map (Nat.add (length l1)) (index_of p l2).
Proof.
  intros p l1 l2 H. induction H as [|x l1 Hx Hl IH]; simpl.
  - destruct (index_of p l2); reflexivity.
  - rewrite Hx, IH. destruct (index_of p l2); reflexivity.
Qed.

Lemma index_of_all_false : forall p tr, Forall (fun x => p x = false) tr -> index_of p tr = None.
Proof.
  intros p tr H. induction H as [|x l Hx Hl IH]; simpl; [reflexivity|]. rewrite Hx, IH. reflexivity.
Qed.

Lemma forallb_Forall : forall A (p : A -> bool) l, forallb p l = true -> Forall (fun x => p x = true) l.
Proof. intros A p l H. apply Forall_forall. apply forallb_forall. exact H. Qed.

Lemma pre_ok_not_meta : forall I e, pre_ok I e = true -> is_meta e = false.
Proof. intros I e H. unfold pre_ok in H. apply andb_true_iff in H. destruct H as [H _]. apply negb_true_iff in H. exact H. Qed.

Lemma pre_ok_safe : forall I e, pre_ok I e = true -> safe_ev (o_recs I) e = true.
Proof. intros I e H. unfold pre_ok in H. apply andb_true_iff in H. apply H. Qed.

Lemma not_meta_not_sync : forall e, is_meta e = false -> is_meta_sync e = false.
Proof. intros e H. unfold is_meta in H. apply orb_false_iff in H. apply H. Qed.

Lemma not_meta_not_write : forall e, is_meta e = false -> is_meta_write e = false.
Proof. intros e H. unfold is_meta in H. apply orb_false_iff in H. apply H. Qed.

Lemma post_ok_not_meta : forall R e, post_ok R e = true -> is_meta e = false.
Proof. intros R e H. destruct e; try discriminate; reflexivity. Qed.

Lemma post_ok_safe : forall R e, post_ok R e = true -> safe_ev R e = true.
Proof. intros R e H. destruct e; try discriminate; try reflexivity; exact H. Qed.

Inductive shape (I : inst) (d0 : disk) (tr : list ev) : Prop :=
| shape_pre :
    index_of is_meta_write tr = None -> index_of is_meta_sync tr = None ->
    Forall (fun e => pre_ok I e = true) tr -> shape I d0 tr
| shape_full (pre post : list ev) (R : list rrec) :
    tr = pre ++ EMetaWrite (n_start I) (n_end I) :: EMetaSync :: post ->
    index_of is_meta_write tr = Some (length pre) ->
    index_of is_meta_sync tr = Some (S (length pre)) ->
    Forall (fun e => pre_ok I e = true) pre ->
    lookup_all (new_recs I pre) (ids_of (n_start I) (n_end I)) = Some R ->
    ordered R = true ->
    forallb (durable_rec (rb_run d0 pre)) R = true ->
    Forall (fun e => post_ok R e = true) post ->
    shape I d0 tr.

Lemma discipline_shape : forall I d0 tr, rb_discipline I d0 tr = true -> shape I d0 tr.
Proof.
  intros I d0 tr Hd. unfold rb_discipline in Hd.
  destruct (index_of is_meta_write tr) as [iw|] eqn:Ew.
  2:{ assert (Hp : forallb (pre_ok I) tr = true).
      { destruct (index_of is_meta_sync tr); exact Hd. }
      apply forallb_Forall in Hp.
      apply shape_pre; [exact Ew| |exact Hp].
      apply index_of_all_false. eapply Forall_impl; [|exact Hp].
      intros e He. apply not_meta_not_sync. exact (pre_ok_not_meta I e He). }
  destruct (index_of is_meta_sync tr) as [is_|] eqn:Es; [|discriminate].
  cbv zeta in Hd.
  apply andb_true_iff in Hd; destruct Hd as [Hd Hrest].
  apply andb_true_iff in Hd; destruct Hd as [Hd Hpre].
  apply andb_true_iff in Hd; destruct Hd as [Hd Hmid].
  apply andb_true_iff in Hd; destruct Hd as [Hlt Hnth].
  destruct (index_of_some _ _ _ Ew) as [l1 [e [l2 [Htr_eq [Hlen [Hpe Hl1]]]]]].
  subst iw.
  assert (F1 : firstn (length l1) tr = l1) by (subst tr; apply firstn_len_app).
  assert (F2 : nth_error tr (length l1) = Some e) by (subst tr; apply nth_error_len_app).
  assert (F3 : skipn (S (length l1)) tr = l2).
  { subst tr. replace (l1 ++ e :: l2) with ((l1 ++ [e]) ++ l2) by (rewrite <- app_assoc; reflexivity).
    replace (S (length l1)) with (length (l1 ++ [e])) by (rewrite app_length; simpl; lia).
    apply skipn_len_app. }
  rewrite F1 in *. rewrite F2 in Hnth. rewrite F3 in Hmid. clear F1 F2 F3.
  apply forallb_Forall in Hpre.
  (* the manifest write *)
  destruct e as [t|t off rid len|t len|t| |t|a b| ]; try discriminate.
  apply andb_true_iff in Hnth. destruct Hnth as [Ha Hb]. apply N.eqb_eq in Ha. apply N.eqb_eq in Hb. subst a b.
  (* the manifest fsync follows immediately *)
  assert (Hns : Forall (fun x => is_meta_sync x = false) l1).
  { eapply Forall_impl; [|exact Hpre]. intros x Hx. apply not_meta_not_sync. exact (pre_ok_not_meta I x Hx). }
  rewrite Htr_eq in Es. rewrite index_of_app_skip in Es by exact Hns. simpl in Es.
  destruct (index_of is_meta_sync l2) as [j|] eqn:Ej; simpl in Es; [|discriminate].
  inversion Es as [His]. clear Es.
  destruct (index_of_some _ _ _ Ej) as [a [e' [post [Hl2 [Hla [Hpe' _]]]]]].
  replace (is_ - length l1 - 1) with (length a) in Hmid by lia.
  rewrite Hl2, firstn_len_app in Hmid.
  destruct a as [|? ?]; [|discriminate]. simpl in Hla, Hl2. subst j l2.
  destruct e' as [t|t off rid len|t len|t| |t|a b| ]; try discriminate.
  assert (His' : is_ = S (length l1)) by lia. clear His. subst is_.
  assert (F4 : skipn (S (S (length l1))) tr = post).
  { subst tr.
    replace (l1 ++ EMetaWrite (n_start I) (n_end I) :: EMetaSync :: post)
      with ((l1 ++ [EMetaWrite (n_start I) (n_end I); EMetaSync]) ++ post) by (rewrite <- app_assoc; reflexivity).
    replace (S (S (length l1))) with (length (l1 ++ [EMetaWrite (n_start I) (n_end I); EMetaSync]))
      by (rewrite app_length; simpl; lia).
    apply skipn_len_app. }
  rewrite F4 in *.
  destruct (lookup_all (new_recs I l1) (ids_of (n_start I) (n_end I))) as [R|] eqn:ER; [|discriminate].
  apply andb_true_iff in Hrest; destruct Hrest as [Hrest Hpost].
  apply andb_true_iff in Hrest; destruct Hrest as [Hord Hdur].
  apply forallb_Forall in Hpost.
  refine (shape_full I d0 tr l1 post R Htr_eq _ _ Hpre ER Hord Hdur Hpost).
  - rewrite Htr_eq. rewrite index_of_app_skip by exact Hl1. simpl. f_equal. lia.
  - rewrite Htr_eq. rewrite index_of_app_skip by exact Hns. simpl. f_equal. lia.
Qed.

Lemma cut_cases : forall (tr pre post : list ev) (w s : ev) n,
  tr = pre ++ w :: s :: post ->
  (n <= length pre /\ firstn n tr = firstn n pre) \/
  (n = S (length pre) /\ firstn n tr = pre ++ [w]) \/
  (S (length pre) < n /\ firstn n tr = pre ++ w :: s :: firstn (n - length pre - 2) post).
Proof.
  intros tr pre post w s n Htr.
  destruct (le_lt_dec n (length pre)) as [Hn|Hn].
  - left. split; [exact Hn|]. rewrite Htr. apply firstn_le_app. exact Hn.
  - right. destruct (Nat.eq_dec n (S (length pre))) as [Hn2|Hn2].
    + left. split; [exact Hn2|]. rewrite Htr, Hn2.
      replace (S (length pre)) with (length pre + 1) by lia. rewrite firstn_len_plus_app. reflexivity.
    + right. split; [lia|]. rewrite Htr.
      replace n with (length pre + S (S (n - length pre - 2))) at 1 by lia.
      rewrite firstn_len_plus_app. reflexivity.
Qed.

(* ====================================================================================== *)
(* Part 4: the theorems                                                                     *)
(* ====================================================================================== *)

Definition rb_inst_ok (I : inst) : Prop := rb_inst_okb I = true.
Definition rb_start_ok (I : inst) (d0 : disk) : Prop := rb_start_okb I d0 = true.

Lemma inst_ok_facts : forall I, rb_inst_ok I ->
  range_ok (o_start I) (o_end I) = true /\ range_ok (n_start I) (n_end I) = true /\
  exists l, lookup_all (o_recs I) (ids_of (o_start I) (o_end I)) = Some l /\ ordered l = true.
Proof.
  intros I H. unfold rb_inst_ok, rb_inst_okb, all_ok, inst_checks in H. simpl in H.
  apply andb_true_iff in H. destruct H as [H0 H].
  apply andb_true_iff in H. destruct H as [H1 H].
  apply andb_true_iff in H. destruct H as [H2 _].
  split; [exact H0|]. split; [exact H1|].
  destruct (lookup_all (o_recs I) (ids_of (o_start I) (o_end I))) as [l|]; [|discriminate].
  exists l. split; [reflexivity|exact H2].
Qed.

Lemma forallb_and3 : forall A (p q r : A -> bool) l,
  forallb (fun x => p x && q x && r x) l = forallb p l && forallb q l && forallb r l.
Proof.
  intros A p q r l. induction l as [|x l IH]; simpl; [reflexivity|]. rewrite IH.
  destruct (p x), (q x), (r x), (forallb p l), (forallb q l), (forallb r l); reflexivity.
Qed.

Lemma start_ok_facts : forall I d0, rb_start_ok I d0 ->
  d_meta d0 = MOld /\ forallb (durable_rec d0) (o_recs I) = true.
Proof.
  intros I d0 H. unfold rb_start_ok, rb_start_okb, all_ok, start_checks in H. simpl in H.
  apply andb_true_iff in H. destruct H as [H0 H].
  apply andb_true_iff in H. destruct H as [H1 H].
  apply andb_true_iff in H. destruct H as [H2 H].
  apply andb_true_iff in H. destruct H as [H3 _].
  split; [destruct (d_meta d0); try discriminate; reflexivity|].
  unfold durable_rec. rewrite forallb_and3, H1, H2, H3. reflexivity.
Qed.

Section Proto.
Variable I : inst.
Variable d0 : disk.
Hypothesis HI : rb_inst_ok I.
Hypothesis H0 : rb_start_ok I d0.

(* before the manifest write: the old manifest, and its records are there *)
Lemma pre_phase : forall evs, Forall (fun e => pre_ok I e = true) evs ->
  d_meta (rb_run d0 evs) = MOld /\ kept (o_recs I) (rb_run d0 evs).
Proof.
  intros evs H. destruct (start_ok_facts I d0 H0) as [Hm Hd]. split.
  - rewrite meta_run_quiet; [exact Hm|]. eapply Forall_impl; [|exact H]. intros e He. exact (pre_ok_not_meta I e He).
  - apply kept_run; [apply durable_kept; exact Hd|].
    eapply Forall_impl; [|exact H]. intros e He. exact (pre_ok_safe I e He).
Qed.

Lemma recover_old : forall d img, kept (o_recs I) d -> rb_pl_image d img ->
  rb_recover (o_recs I) (o_start I) (o_end I) img = true.
Proof.
  intros d img Hk Hi. destruct (inst_ok_facts I HI) as (Hr & _ & l & Hl & Ho).
  unfold rb_recover. rewrite Hr, Hl, Ho. simpl. apply forallb_forall. intros r Hr'.
  apply (kept_present (o_recs I) d img Hk Hi). apply (lookup_all_in _ _ _ Hl). exact Hr'.
Qed.

Lemma recover_new : forall pre R d img,
  lookup_all (new_recs I pre) (ids_of (n_start I) (n_end I)) = Some R -> ordered R = true ->
  kept R d -> rb_pl_image d img ->
  rb_recover (new_recs I pre) (n_start I) (n_end I) img = true.
Proof.
  intros pre R d img Hl Ho Hk Hi. destruct (inst_ok_facts I HI) as (_ & Hr & _).
  unfold rb_recover. rewrite Hr, Hl, Ho. simpl. apply forallb_forall. intros r Hr'.
  apply (kept_present R d img Hk Hi). exact Hr'.
Qed.

Lemma atomic_core : forall tr, rb_discipline I d0 tr = true ->
  forall n img, rb_pl_image (rb_run d0 (firstn n tr)) img ->
    (i_new img = false -> rb_recover (o_recs I) (o_start I) (o_end I) img = true) /\
    (i_new img = true -> rb_recover (rb_new_recs I tr) (n_start I) (n_end I) img = true) /\
    (forall iw, index_of is_meta_write tr = Some iw -> n <= iw -> i_new img = false) /\
    (forall is_, index_of is_meta_sync tr = Some is_ -> is_ < n -> i_new img = true) /\
    ((forall is_, index_of is_meta_sync tr = Some is_ -> n <= is_) ->
     rb_recover (o_recs I) (o_start I) (o_end I) img = true).
Proof.
  intros tr Hd n img Himg.
  destruct (discipline_shape _ _ _ Hd) as [Hw Hsn Hall | pre post R Htr Hiw His Hpre HR Hord Hdur Hpost].
  - destruct (pre_phase (firstn n tr) (Forall_firstn _ _ n _ Hall)) as [Hm Hk].
    assert (Hnew : i_new img = false). { destruct Himg as [Hx _]. rewrite Hm in Hx. exact Hx. }
    pose proof (recover_old _ img Hk Himg) as Ro.
    split; [intros _; exact Ro|]. split; [intros E; congruence|]. split; [intros; exact Hnew|].
    split; [intros is_ E; congruence|intros _; exact Ro].
  - assert (Enew : rb_new_recs I tr = new_recs I pre).
    { unfold rb_new_recs. rewrite Hiw, Htr, firstn_len_app. reflexivity. }
    destruct (cut_cases tr pre post _ _ n Htr) as [[Hn E]|[[Hn E]|[Hn E]]]; rewrite E in Himg.
    + destruct (pre_phase (firstn n pre) (Forall_firstn _ _ n _ Hpre)) as [Hm Hk].
      assert (Hnew : i_new img = false). { destruct Himg as [Hx _]. rewrite Hm in Hx. exact Hx. }
      pose proof (recover_old _ img Hk Himg) as Ro.
      split; [intros _; exact Ro|]. split; [intros E2; congruence|]. split; [intros; exact Hnew|].
      split; [intros is_ E2 Hlt; rewrite His in E2; inversion E2; lia|intros _; exact Ro].
    + (* between the manifest write and its fsync: both sets of records are there *)
      destruct (pre_phase pre Hpre) as [Hm Hk].
      rewrite rb_run_app, rb_run_one in Himg.
      pose proof (kept_meta_step _ _ (EMetaWrite (n_start I) (n_end I)) eq_refl Hk) as Hk1.
      pose proof (kept_meta_step _ _ (EMetaWrite (n_start I) (n_end I)) eq_refl (durable_kept _ _ Hdur)) as Hk2.
      pose proof (recover_old _ img Hk1 Himg) as Ro.
      split; [intros _; exact Ro|].
      split; [intros _; rewrite Enew; exact (recover_new pre R _ img HR Hord Hk2 Himg)|].
      split; [intros iw E2 Hle; rewrite Hiw in E2; inversion E2; lia|].
      split; [intros is_ E2 Hlt; rewrite His in E2; inversion E2; lia|intros _; exact Ro].
    + (* after the manifest fsync *)
      set (k := n - length pre - 2) in *.
      replace (pre ++ EMetaWrite (n_start I) (n_end I) :: EMetaSync :: firstn k post)
        with (pre ++ [EMetaWrite (n_start I) (n_end I); EMetaSync] ++ firstn k post) in Himg by reflexivity.
      rewrite rb_run_app, rb_run_app in Himg.
      destruct (pre_phase pre Hpre) as [Hm _].
      set (d2 := rb_run (rb_run d0 pre) [EMetaWrite (n_start I) (n_end I); EMetaSync]) in *.
      assert (Hm2 : d_meta d2 = MNew). { unfold d2. rewrite rb_run_two, !d_meta_dstep, Hm. reflexivity. }
      assert (Hk2 : kept R d2).
      { unfold d2. rewrite rb_run_two. apply kept_meta_step; [reflexivity|]. apply kept_meta_step; [reflexivity|].
        apply durable_kept. exact Hdur. }
      pose proof (Forall_firstn _ _ k _ Hpost) as Hpk.
      assert (Hm3 : d_meta (rb_run d2 (firstn k post)) = MNew).
      { rewrite meta_run_quiet; [exact Hm2|]. eapply Forall_impl; [|exact Hpk]. intros e He. exact (post_ok_not_meta R e He). }
      assert (Hk3 : kept R (rb_run d2 (firstn k post))).
      { apply kept_run; [exact Hk2|]. eapply Forall_impl; [|exact Hpk]. intros e He. exact (post_ok_safe R e He). }
      assert (Hnew : i_new img = true). { destruct Himg as [Hx _]. rewrite Hm3 in Hx. exact Hx. }
      split; [intros E2; congruence|].
      split; [intros _; rewrite Enew; exact (recover_new pre R _ img HR Hord Hk3 Himg)|].
      split; [intros iw E2 Hle; rewrite Hiw in E2; inversion E2; lia|].
      split; [intros; exact Hnew|].
      intros Hx. specialize (Hx _ His). lia.
Qed.

End Proto.

(* For every instance, every starting disk that holds the old range durably, every trace accepted by
   the monitor, every cut point and every power-loss image: if the image holds the old manifest, every
   record of the old range is there; if it holds the new one, every record of the new range is;
   before the manifest write it is the old one, after the manifest fsync the new one. *)
Theorem rb_powerloss_atomic : forall I d0 tr,
  rb_inst_ok I -> rb_start_ok I d0 -> rb_discipline I d0 tr = true ->
  forall n img, rb_pl_image (rb_run d0 (firstn n tr)) img ->
    (i_new img = false -> rb_recover (o_recs I) (o_start I) (o_end I) img = true) /\
    (i_new img = true -> rb_recover (rb_new_recs I tr) (n_start I) (n_end I) img = true) /\
    (forall iw, index_of is_meta_write tr = Some iw -> n <= iw -> i_new img = false) /\
    (forall is_, index_of is_meta_sync tr = Some is_ -> is_ < n -> i_new img = true).
Proof.
  intros I d0 tr HI H0 Hd n img Himg.
  destruct (atomic_core I d0 HI H0 tr Hd n img Himg) as (A & B & C & D & _).
  split; [exact A|]. split; [exact B|]. split; [exact C|exact D].
Qed.

(* C17: until the switch-over is durable no record of the old range is touched, whichever manifest
   the image holds *)
Theorem rb_old_range_intact : forall I d0 tr,
  rb_inst_ok I -> rb_start_ok I d0 -> rb_discipline I d0 tr = true ->
  forall n img, (forall is_, index_of is_meta_sync tr = Some is_ -> n <= is_) ->
  rb_pl_image (rb_run d0 (firstn n tr)) img ->
  rb_recover (o_recs I) (o_start I) (o_end I) img = true.
Proof.
  intros I d0 tr HI H0 Hd n img Hn Himg.
  destruct (atomic_core I d0 HI H0 tr Hd n img Himg) as (_ & _ & _ & _ & E). exact (E Hn).
Qed.

(* ====================================================================================== *)
(* Part 5: the verdict                                                                      *)
(* ====================================================================================== *)

Lemma first_bad_none : forall A (p : A -> bool) l, first_bad p l = None <-> forallb p l = true.
Proof.
  intros A p l. induction l as [|x r IH]; simpl.
  - split; reflexivity.
  - destruct (p x); simpl.
    + destruct (first_bad p r); simpl.
      * split; [discriminate|]. intros H. apply IH in H. discriminate.
      * split; [|reflexivity]. intros _. apply IH. reflexivity.
    + split; discriminate.
Qed.

Lemma chk_none : forall b c pos k, chk b c pos k = None <-> b = true /\ k = None.
Proof.
  intros b c pos k. unfold chk. destruct b.
  - split; [intros H; split; [reflexivity|exact H]|intros [_ H]; exact H].
  - split; [discriminate|intros [H _]; discriminate].
Qed.

Lemma chk_evs_none : forall p cl l off k, chk_evs p cl l off k = None <-> forallb p l = true /\ k = None.
Proof.
  intros p cl l off k. unfold chk_evs. destruct (first_bad p l) as [i|] eqn:E.
  - split; [discriminate|]. intros [H _]. apply first_bad_none in H. rewrite H in E. discriminate.
  - apply first_bad_none in E. split; [intros H; split; assumption|intros [_ H]; exact H].
Qed.

Lemma chk_recs_none : forall p l c k, chk_recs p l c k = None <-> forallb p l = true /\ k = None.
Proof.
  intros p l c k. unfold chk_recs. destruct (first_bad p l) as [i|] eqn:E.
  - split; [discriminate|]. intros [H _]. apply first_bad_none in H. rewrite H in E. discriminate.
  - apply first_bad_none in E. split; [intros H; split; assumption|intros [_ H]; exact H].
Qed.

Theorem rb_explain_ok : forall I d0 tr, rb_explain I d0 tr = None <-> rb_discipline I d0 tr = true.
Proof.
  intros I d0 tr. unfold rb_explain, rb_discipline.
  destruct (index_of is_meta_write tr) as [iw|] eqn:Ew.
  - destruct (index_of is_meta_sync tr) as [is_|] eqn:Es.
    + cbv zeta.
      destruct (lookup_all (new_recs I (firstn iw tr)) (ids_of (n_start I) (n_end I))) as [R|] eqn:ER.
      * unfold durable_rec. rewrite forallb_and3.
        repeat (rewrite chk_none || rewrite chk_evs_none || rewrite chk_recs_none).
        rewrite !andb_true_iff. tauto.
      * repeat (rewrite chk_none || rewrite chk_evs_none).
        rewrite !andb_true_iff. split; [intros (_ & _ & _ & _ & H); discriminate|intros [_ H]; discriminate].
    + split; discriminate.
  - destruct (index_of is_meta_sync tr) as [is_|] eqn:Es; rewrite chk_evs_none; tauto.
Qed.

(* what an all-ok verdict of the driver (ocaml/rb_cmds.ml) means *)
Theorem rb_checked_powerloss_atomic : forall I d0 tr,
  rb_inst_okb I = true -> rb_start_okb I d0 = true -> rb_explain I d0 tr = None ->
  forall n img, rb_pl_image (rb_run d0 (firstn n tr)) img ->
    (i_new img = false -> rb_recover (o_recs I) (o_start I) (o_end I) img = true) /\
    (i_new img = true -> rb_recover (rb_new_recs I tr) (n_start I) (n_end I) img = true) /\
    (forall iw, index_of is_meta_write tr = Some iw -> n <= iw -> i_new img = false) /\
    (forall is_, index_of is_meta_sync tr = Some is_ -> is_ < n -> i_new img = true).
Proof.
  intros I d0 tr HI H0 Hd. apply rb_powerloss_atomic; [exact HI|exact H0|apply rb_explain_ok; exact Hd].
Qed.

(* ====================================================================================== *)
(* Part 6: examples - accepted traces (non-vacuity) and the necessity of every clause       *)
(* ====================================================================================== *)

Module Ex.
  Local Open Scope N_scope.
  Definition mkr (id seg off len : N) : rrec := {| r_id := id; r_seg := seg; r_off := off; r_len := len |}.
  Definition mkn (dur : option N) (files : list (N * fstate)) (next : N) : nstate :=
    {| n_dur := dur; n_dpend := []; n_files := files; n_next := next |}.
  Definition mkf (dur : list (N * blk)) : fstate := {| fdur := dur; fpend := [] |}.

  (* instance A: one record per segment. old range [1,2] (record 1 = one block in segment 1, record 2 =
     two blocks in segment 2), new range [2,3]: the commit rolls over into segment 3 and prunes segment 1 *)
  Definition IA : inst := {| o_start := 1; o_end := 2; o_recs := [mkr 1 1 0 1; mkr 2 2 0 2]; n_start := 2; n_end := 3 |}.
  Definition dA : disk :=
    {| d_names := [(1, mkn (Some 0) [(0, mkf [(0, (1, 0))])] 1);
                   (2, mkn (Some 0) [(0, mkf [(0, (2, 0)); (1, (2, 1))])] 1)];
       d_meta := MOld |}.
  (* what SegmentedLog::append + the sync + prune_oldest do *)
  Definition tr_roll : list ev :=
    [ECreate 3; EAppend 3 0 3 1; ETrunc 3 1; ESync 3; EDirSync; EMetaWrite 2 3; EMetaSync; EUnlink 1].

  Lemma IA_ok : rb_inst_okb IA = true. Proof. vm_compute. reflexivity. Qed.
  Lemma dA_ok : rb_start_okb IA dA = true. Proof. vm_compute. reflexivity. Qed.
  (* non-vacuity: roll-over and pruning, accepted; and every power-loss image of every cut checked *)
  Example tr_roll_accepted : rb_discipline IA dA tr_roll = true. Proof. vm_compute. reflexivity. Qed.
  Example tr_roll_explain : rb_explain IA dA tr_roll = None. Proof. vm_compute. reflexivity. Qed.
  Example tr_roll_atomic : check_all IA dA tr_roll = true. Proof. vm_compute. reflexivity. Qed.

  (* instance B: both records in segment 1 (record 1 = block 0, record 2 = blocks 1-2); a commit appends
     record 3 behind them *)
  Definition IB : inst := {| o_start := 1; o_end := 2; o_recs := [mkr 1 1 0 1; mkr 2 1 1 2]; n_start := 1; n_end := 3 |}.
  Definition dB : disk :=
    {| d_names := [(1, mkn (Some 0) [(0, mkf [(0, (1, 0)); (1, (2, 0)); (2, (2, 1))])] 1)]; d_meta := MOld |}.
  Definition tr_app : list ev := [EAppend 1 3 3 1; ETrunc 1 4; ESync 1; EMetaWrite 1 3; EMetaSync].
  Lemma IB_ok : rb_inst_okb IB = true. Proof. vm_compute. reflexivity. Qed.
  Lemma dB_ok : rb_start_okb IB dB = true. Proof. vm_compute. reflexivity. Qed.
  Example tr_app_accepted : rb_discipline IB dB tr_app = true. Proof. vm_compute. reflexivity. Qed.
  Example tr_app_atomic : check_all IB dB tr_app = true. Proof. vm_compute. reflexivity. Qed.

  (* instance C: a rollback of one commit on disk B: new range [1,1]; prune_recent fsyncs the directory,
     cuts the head behind record 1 and fdatasyncs it *)
  Definition IC : inst := {| o_start := 1; o_end := 2; o_recs := [mkr 1 1 0 1; mkr 2 1 1 2]; n_start := 1; n_end := 1 |}.
  Definition tr_rollback : list ev := [EMetaWrite 1 1; EMetaSync; EDirSync; ETrunc 1 1; ESync 1].
  Lemma IC_ok : rb_inst_okb IC = true. Proof. vm_compute. reflexivity. Qed.
  Lemma dC_ok : rb_start_okb IC dB = true. Proof. vm_compute. reflexivity. Qed.
  Example tr_rollback_accepted : rb_discipline IC dB tr_rollback = true. Proof. vm_compute. reflexivity. Qed.
  Example tr_rollback_atomic : check_all IC dB tr_rollback = true. Proof. vm_compute. reflexivity. Qed.

  (* instance D: a rollback on disk A that removes a whole segment: new range [1,1] *)
  Definition ID : inst := {| o_start := 1; o_end := 2; o_recs := [mkr 1 1 0 1; mkr 2 2 0 2]; n_start := 1; n_end := 1 |}.
  Definition tr_rollback2 : list ev := [EMetaWrite 1 1; EMetaSync; EUnlink 2; EDirSync; ETrunc 1 1; ESync 1].
  Lemma ID_ok : rb_inst_okb ID = true. Proof. vm_compute. reflexivity. Qed.
  Lemma dD_ok : rb_start_okb ID dA = true. Proof. vm_compute. reflexivity. Qed.
  Example tr_rollback2_accepted : rb_discipline ID dA tr_rollback2 = true. Proof. vm_compute. reflexivity. Qed.
  Example tr_rollback2_atomic : check_all ID dA tr_rollback2 = true. Proof. vm_compute. reflexivity. Qed.

  (* a name unlinked and created again before the directory is fsynced (the log emptied by a rollback,
     then the first commit re-creates segment 1): old range empty, new range [1,1] *)
  Definition IE : inst := {| o_start := 0; o_end := 0; o_recs := []; n_start := 1; n_end := 1 |}.
  Definition dE : disk :=
    {| d_names := [(1, {| n_dur := Some 0; n_dpend := [DUnlink]; n_files := [(0, mkf [(0, (1, 0)); (1, (2, 0))])]; n_next := 1 |})];
       d_meta := MOld |}.
  Definition tr_recreate : list ev := [ECreate 1; EAppend 1 0 1 1; ETrunc 1 1; ESync 1; EDirSync; EMetaWrite 1 1; EMetaSync].
  Lemma IE_ok : rb_inst_okb IE = true. Proof. vm_compute. reflexivity. Qed.
  Lemma dE_ok : rb_start_okb IE dE = true. Proof. vm_compute. reflexivity. Qed.
  Example tr_recreate_accepted : rb_discipline IE dE tr_recreate = true. Proof. vm_compute. reflexivity. Qed.
  Example tr_recreate_atomic : check_all IE dE tr_recreate = true. Proof. vm_compute. reflexivity. Qed.

  (* the violating traces: each differs from an accepted one in one step *)
  (* the seeded change C17-u5: prune_oldest before the manifest write *)
  Definition tr_early_prune : list ev :=
    [ECreate 3; EAppend 3 0 3 1; ETrunc 3 1; ESync 3; EDirSync; EUnlink 1; EMetaWrite 2 3; EMetaSync].
  Definition tr_early_trunc : list ev := [ETrunc 1 2; EAppend 1 3 3 1; ETrunc 1 4; ESync 1; EMetaWrite 1 3; EMetaSync].
  Definition tr_overwrite : list ev := [EAppend 1 2 3 1; ETrunc 1 3; ESync 1; EMetaWrite 1 3; EMetaSync].
  Definition tr_recreate_live : list ev :=
    [ECreate 2; EAppend 2 0 3 1; ESync 2; EDirSync; EMetaWrite 2 3; EMetaSync].
  Definition tr_no_fsync : list ev := [ECreate 3; EAppend 3 0 3 1; ETrunc 3 1; EDirSync; EMetaWrite 2 3; EMetaSync; EUnlink 1].
  Definition tr_no_dirsync : list ev := [ECreate 3; EAppend 3 0 3 1; ETrunc 3 1; ESync 3; EMetaWrite 2 3; EMetaSync; EUnlink 1].
  Definition tr_no_append : list ev := [EMetaWrite 2 3; EMetaSync; EUnlink 1].
  Definition tr_cut_again : list ev :=
    [ECreate 3; EAppend 3 0 3 1; ETrunc 3 0; ESync 3; EDirSync; EMetaWrite 2 3; EMetaSync; EUnlink 1].
  Definition tr_misplaced : list ev := [EAppend 2 5 3 1; ESync 2; EMetaWrite 2 3; EMetaSync; EUnlink 1].
  Definition tr_prune_live : list ev :=
    [ECreate 3; EAppend 3 0 3 1; ETrunc 3 1; ESync 3; EDirSync; EMetaWrite 2 3; EMetaSync; EUnlink 2].
  Definition tr_cut_live : list ev := [EMetaWrite 1 1; EMetaSync; EDirSync; ETrunc 1 0; ESync 1].
  Definition tr_late_write : list ev := [EMetaWrite 1 1; EMetaSync; EAppend 1 0 9 1].
  Definition tr_mid : list ev :=
    [ECreate 3; EAppend 3 0 3 1; ETrunc 3 1; ESync 3; EDirSync; EMetaWrite 2 3; EUnlink 1; EMetaSync].
End Ex.

Import Ex.

(* shape of every necessity statement: instance and starting disk satisfy the hypotheses of the theorem,
   the monitor rejects the trace with exactly this clause, and there is a cut and a power-loss image at
   which the recovery of the range of the manifest the image holds fails *)
Definition refutes (I : inst) (d0 : disk) (tr : list ev) (c : clause) (pos n : nat) (img : image) : Prop :=
  rb_inst_okb I = true /\ rb_start_okb I d0 = true /\ rb_explain I d0 tr = Some (c, pos) /\
  rb_pl_image (rb_run d0 (firstn n tr)) img /\
  (if i_new img then rb_recover (rb_new_recs I tr) (n_start I) (n_end I) img
   else rb_recover (o_recs I) (o_start I) (o_end I) img) = false.

Ltac refute :=
  unfold refutes; split; [vm_compute; reflexivity|]; split; [vm_compute; reflexivity|];
  split; [vm_compute; reflexivity|]; split; [apply pl_image_of_keeps; vm_compute; reflexivity|vm_compute; reflexivity].

(* no unlink of a segment holding an old live record before the manifest is durable (C17-u5):
   the unlink survives, the manifest is the old one, record 1 is gone *)
Theorem pre_unlink_necessary : exists n img, refutes IA dA tr_early_prune KPreUnlink 5 n img.
Proof.
  exists 6%nat, (img_of (rb_run dA (firstn 6 tr_early_prune)) false [(1%N, [true])] []). refute.
Qed.

(* no truncation into an old live record before the manifest is durable *)
Theorem pre_trunc_necessary : exists n img, refutes IB dB tr_early_trunc KPreTrunc 0 n img.
Proof.
  exists 1%nat, (img_of (rb_run dB (firstn 1 tr_early_trunc)) false [] [(1%N, [true])]). refute.
Qed.

(* no write onto blocks of an old live record ("append onto old bytes") *)
Theorem pre_overwrite_necessary : exists n img, refutes IB dB tr_overwrite KPreOverwrite 0 n img.
Proof.
  exists 1%nat, (img_of (rb_run dB (firstn 1 tr_overwrite)) false [] [(1%N, [true])]). refute.
Qed.

(* no re-creation of a segment name that holds an old live record *)
Theorem pre_create_necessary : exists n img, refutes IA dA tr_recreate_live KPreCreate 0 n img.
Proof.
  exists 1%nat, (img_of (rb_run dA (firstn 1 tr_recreate_live)) false [(2%N, [true])] []). refute.
Qed.

(* the segment of a new record is fsynced before the manifest write: otherwise the new manifest can be
   durable while the record is not *)
Theorem segment_fsync_necessary : exists n img, refutes IA dA tr_no_fsync KNewUnsynced 1 n img.
Proof.
  exists 6%nat, (img_of (rb_run dA (firstn 6 tr_no_fsync)) true [] [(3%N, [false; false])]). refute.
Qed.

(* the directory is fsynced after the creation of a segment and before the manifest write: otherwise the
   new manifest can be durable while the segment file does not exist *)
Theorem dir_fsync_necessary : exists n img, refutes IA dA tr_no_dirsync KNewDir 1 n img.
Proof.
  exists 6%nat, (img_of (rb_run dA (firstn 6 tr_no_dirsync)) true [(3%N, [false])] []). refute.
Qed.

(* every record of the new range has been appended *)
Theorem append_necessary : exists n img, refutes IA dA tr_no_append KNewMissing 1 n img.
Proof.
  exists 2%nat, (img_of (rb_run dA (firstn 2 tr_no_append)) true [] []). refute.
Qed.

(* ... and is still in the durable file at the manifest write *)
Theorem content_necessary : exists n img, refutes IA dA tr_cut_again KNewContent 1 n img.
Proof.
  exists 7%nat, (img_of (rb_run dA (firstn 7 tr_cut_again)) true [] []). refute.
Qed.

(* ... at the place where the reader looks for it (right behind its predecessor or at the start of a
   later segment) *)
Theorem placement_necessary : exists n img, refutes IA dA tr_misplaced KNewOrder 2 n img.
Proof.
  exists 4%nat, (img_of (rb_run dA (firstn 4 tr_misplaced)) true [] []). refute.
Qed.

(* after the manifest fsync only segments without a record of the NEW range are unlinked *)
Theorem post_unlink_necessary : exists n img, refutes IA dA tr_prune_live KPostUnlink 7 n img.
Proof.
  exists 8%nat, (img_of (rb_run dA (firstn 8 tr_prune_live)) true [(2%N, [true])] []). refute.
Qed.

(* ... and truncation only behind the new end *)
Theorem post_trunc_necessary : exists n img, refutes IC dB tr_cut_live KPostTrunc 3 n img.
Proof.
  exists 4%nat, (img_of (rb_run dB (firstn 4 tr_cut_live)) true [] [(1%N, [true])]). refute.
Qed.

(* ... and nothing is written *)
Theorem post_write_necessary : exists n img, refutes IC dB tr_late_write KPostWrite 2 n img.
Proof.
  exists 3%nat, (img_of (rb_run dB (firstn 3 tr_late_write)) true [] [(1%N, [true])]). refute.
Qed.

(* nothing happens between the manifest write and its fsync (the old manifest may still be the durable one) *)
Theorem mid_necessary : exists n img, refutes IA dA tr_mid KMid 6 n img.
Proof.
  exists 7%nat, (img_of (rb_run dA (firstn 7 tr_mid)) false [(1%N, [true])] []). refute.
Qed.

(* ====================================================================================== *)
(* Part 7: an observation outside the theorem: directory operations that persist out of     *)
(* order can leave a GAP in the segment numbers                                             *)
(* ====================================================================================== *)
(* seglog::open (Recovery::scan_root_dir, seglog/mod.rs:454-471) refuses a directory whose segment ids
   are not contiguous ("Gap in segment IDs"), whether or not the segments involved hold live records.
   prune_oldest (seglog/mod.rs:302-316) and remove_all_segments (389-397) unlink without fsyncing the
   directory, so the unlinks of several syncs can be pending at the same time (until the next roll-over
   or rollback fsyncs the directory).  Under THIS model (pending directory operations survive
   independently of each other) a disk reached by accepted traces has a power-loss image with a gap although
   every live record is present: below, segments 1 and 2 were pruned by two earlier syncs; the unlink of
   segment 2 survives, the one of segment 1 does not: the directory holds {1, 3}.
   File systems that persist directory operations in order (the journals of ext4, xfs, btrfs) do not
   produce such images; [rb_recover] deliberately does not include the gap check, this is recorded as an
   observation about the robustness of the reader, not as a violation of C17. *)
Definition present_ids (img : image) (ids : list N) : list N :=
  filter (fun s => match i_file img s with Some _ => true | None => false end) ids.

Fixpoint contiguous (l : list N) : bool :=
  match l with
  | a :: ((b :: _) as t) => N.eqb b (N.succ a) && contiguous t
  | _ => true
  end.

Module Gap.
  Local Open Scope N_scope.
  (* segments 1 and 2 were pruned by the two previous syncs (their unlinks are not durable yet), segment 3
     holds the only live record; the commit appends record 4 to segment 3 *)
  Definition IG : inst := {| o_start := 3; o_end := 3; o_recs := [mkr 3 3 0 1]; n_start := 3; n_end := 4 |}.
  Definition dG : disk :=
    {| d_names := [(1, {| n_dur := Some 0; n_dpend := [DUnlink]; n_files := [(0, mkf [(0, (1, 0))])]; n_next := 1 |});
                   (2, {| n_dur := Some 0; n_dpend := [DUnlink]; n_files := [(0, mkf [(0, (2, 0))])]; n_next := 1 |});
                   (3, mkn (Some 0) [(0, mkf [(0, (3, 0))])] 1)];
       d_meta := MOld |}.
  Definition trG : list ev := [EAppend 3 1 4 1; ETrunc 3 2; ESync 3; EMetaWrite 3 4; EMetaSync].
End Gap.

Theorem gap_possible_with_unordered_directory_operations :
  rb_inst_okb Gap.IG = true /\ rb_start_okb Gap.IG Gap.dG = true /\ rb_discipline Gap.IG Gap.dG Gap.trG = true /\
  exists img, rb_pl_image (rb_run Gap.dG (firstn 0 Gap.trG)) img /\
    rb_recover (o_recs Gap.IG) (o_start Gap.IG) (o_end Gap.IG) img = true /\
    contiguous (present_ids img [1; 2; 3]%N) = false.
Proof.
  split; [vm_compute; reflexivity|]. split; [vm_compute; reflexivity|]. split; [vm_compute; reflexivity|].
  exists (img_of Gap.dG false [(1%N, [false]); (2%N, [true])] []).
  split; [apply pl_image_of_keeps; vm_compute; reflexivity|]. split; vm_compute; reflexivity.
Qed.

Print Assumptions rb_powerloss_atomic.
Print Assumptions rb_old_range_intact.
Print Assumptions rb_explain_ok.
