(* The lookup of a merkle page in the hash table (bitbox PageLoader::probe + PageLoad::try_complete,
   and Store::load_page for the root page at open): walk the triangular probe sequence from
   hash mod buckets; an EMPTY meta byte ends the search ("not stored"); a tombstone or a FULL byte
   with another 7-bit tag is passed over; a FULL byte with the page's tag is a POSSIBLE hit: the
   bucket's page is read and its label compared - on a mismatch (a tag collision) the walk goes ON.
   [ht_lookup_once] is the lookup without that retry (what a "single attempt" does). *)
From Coq Require Import List Bool Arith NArith Lia.
From Nomt Require Import Base Image.
Import ListNotations.
Local Open Scope N_scope.

Definition page_at (ps : list mpage) (b : N) : option mpage :=
  find (fun p => p_bucket p =? b) ps.

Fixpoint ht_lookup (fuel : nat) (mm : pmap N) (ps : list mpage) (buckets hash label bucket step : N)
  : option mpage :=
  match fuel with
  | O => None
  | S f =>
      let b := (bucket + step) mod buckets in
      match nfind b mm with
      | None => None
      | Some m =>
          if m =? full_entry hash then
            match page_at ps b with
            | Some p => if p_label p =? label then Some p
                        else ht_lookup f mm ps buckets hash label b (step + 1)
            | None => ht_lookup f mm ps buckets hash label b (step + 1)
            end
          else ht_lookup f mm ps buckets hash label b (step + 1)
      end
  end.

Fixpoint ht_lookup_once (fuel : nat) (mm : pmap N) (ps : list mpage) (buckets hash label bucket step : N)
  : option mpage :=
  match fuel with
  | O => None
  | S f =>
      let b := (bucket + step) mod buckets in
      match nfind b mm with
      | None => None
      | Some m =>
          if m =? full_entry hash then
            match page_at ps b with
            | Some p => if p_label p =? label then Some p else None
            | None => None
            end
          else ht_lookup_once f mm ps buckets hash label b (step + 1)
      end
  end.

(* the meta map and the page list describe one table: every page's bucket carries its meta byte *)
Definition meta_consistent (mm : pmap N) (ps : list mpage) : bool :=
  forallb (fun p => match nfind (p_bucket p) mm with Some m => m =? p_meta p | None => false end) ps.
