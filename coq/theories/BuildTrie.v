(* Mirror of core/src/update.rs: leaf_ops_spliced and the stack-based build_trie (the visitor
   is dropped; it does not influence the returned root).  Keys are the 256-bit arrays of the
   implementation, so slicing a key beyond 256 bits is the Rust panic it would be. *)
From Nomt Require Import Base Hash Result.

Section WithHasher.
  Variable H : Hasher.
  Variable KEYLEN : nat.   (* 256 in the implementation; generic so that small instances can be evaluated *)

  (* shared_bits of the two keys after the first [skip] bits *)
  Definition common_after (skip : nat) (k1 k2 : key) : nat :=
    common (skipn skip k1) (skipn skip k2).

  (* the [for bit in key[skip..leaf_end].rev().take(n)] loop of build_trie:
     [bits_rev] are the bits of the leaf's path below the sub-trie root, deepest first *)
  Fixpoint hash_layers (n : nat) (bits_rev : list bool) (layer : nat) (last : node H)
           (pending : list (node H * nat)) : node H * nat * list (node H * nat) :=
    match n, bits_rev with
    | S n', b :: bs =>
        let layer' := layer - 1 in
        let '(sibling, pending') :=
          match pending with
          | (s, l) :: ps => if Nat.eqb l (layer' + 1) then (s, ps) else (TERM H, pending)
          | [] => (TERM H, pending)
          end in
        let node' := if b then hint H sibling last else hint H last sibling in
        hash_layers n' bs layer' node' pending'
    | _, _ => (last, layer, pending)
    end.

  Inductive bt_err := .   (* build_trie has no error value, only panics *)

  (* the main loop over the window (a, b, c) *)
  Fixpoint bt_loop (skip : nat) (a : option key) (b : key * value) (rest : list (key * value))
           (pending : list (node H * nat)) : res bt_err (list (node H * nat)) :=
    let '(this_key, this_val) := b in
    let n1 := option_map (fun k => common_after skip k this_key) a in
    let n2 := match rest with c :: _ => Some (common_after skip (fst c) this_key) | [] => None end in
    let leaf := hleaf H this_key this_val in
    let '(leaf_depth, up) :=
      match n1, n2 with
      | None, None => (0, 0)
      | None, Some n2 => (n2 + 1, 0)
      | Some n1, None => (n1 + 1, n1 + 1)
      | Some n1, Some n2 => (Nat.max n1 n2 + 1, n1 - n2)
      end in
    (* this_key.view_bits()[skip..skip + leaf_depth] *)
    if Nat.ltb KEYLEN (skip + leaf_depth) then Panic
    else
      let bits := firstn leaf_depth (skipn skip this_key) in
      let '(last, layer, pending') := hash_layers up (rev bits) leaf_depth leaf pending in
      let pending'' := (last, layer) :: pending' in
      match rest with
      | [] => Ok pending''
      | c :: rest' => bt_loop skip (Some this_key) c rest' pending''
      end.

  Definition build_trie (skip : nat) (ops : list (key * value)) : res bt_err (node H) :=
    match ops with
    | [] => Ok (TERM H)
    | [(k, v)] => Ok (hleaf H k v)
    | b :: rest =>
        (* common_after_prefix slices [skip..]: panics when skip > 256 *)
        if Nat.ltb KEYLEN skip then Panic
        else
          bind (bt_loop skip None b rest [])
               (fun pending => Ok (match pending with (n, _) :: _ => n | [] => TERM H end))
    end.

  (* leaf_ops_spliced: the prior leaf is kept unless the ops mention its key; deletes vanish.
     ops are sorted (verify_update checks it before calling), so the binary search of the Rust
     code returns the first position whose key is not smaller. *)
  Fixpoint splice (lk : key) (lv : value) (ops : list (key * option value)) : list (key * option value) :=
    match ops with
    | [] => [(lk, Some lv)]
    | (k, o) :: ops' =>
        if key_eqb k lk then ops
        else if key_ltb lk k then (lk, Some lv) :: ops
        else (k, o) :: splice lk lv ops'
    end.

  Definition live_ops (ops : list (key * option value)) : list (key * value) :=
    flat_map (fun e => match snd e with Some v => [(fst e, v)] | None => [] end) ops.

  Definition leaf_ops_spliced (leaf : option (key * value)) (ops : list (key * option value))
    : list (key * value) :=
    live_ops (match leaf with Some (lk, lv) => splice lk lv ops | None => ops end).
End WithHasher.
